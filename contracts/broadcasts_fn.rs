// module-level hints for the extracted code of units U2/U3 (trusted axioms declared in std_specs.rs / standins_fn.rs)
broadcast use {axiom_bool_bitand, axiom_bool_bitor, axiom_pattern_string, group_f64, axiom_f64_obeys, vstd::std_specs::btree::group_btree_axioms, axiom_string_key_model, axiom_string_of, axiom_key_order, lemma_vv_map_empty, lemma_vv_seq_empty};
