// =================================================================================================
// Compositional denotation of expressions (the oracle for C02 composition, C05, C10, C11).
// `sem` threads the state of one evaluation -- the cache view and the ghost invocation log -- through
// the sub-expressions in exactly the order the property statements prescribe.
// =================================================================================================

/// state of one ruleset evaluation: function cache (view of the real BTreeMap) + real invocations so far
pub struct St { pub cache: Map<String, Val>, pub log: Seq<Call> }

pub uninterp spec fn str_of(s: Seq<char>) -> &'static str;
pub uninterp spec fn debug_val(v: Val) -> Seq<char>;

/// `format!("{name}-{param:?}")`
pub open spec fn cache_key_of(name: Seq<char>, arg: Val) -> String { string_of(name + seq!['-'] + debug_val(arg)) }

// ---- C10: names ---------------------------------------------------------------------------------------
pub open spec fn facts_lit() -> Seq<char> { seq!['f', 'a', 'c', 't', 's'] }

pub open spec fn ref_sem(facts: Value, name: Seq<char>) -> Res {
    if name == facts_lit() {
        Res::Ok(vv(facts))
    } else {
        match facts {
            Value::Map(m) => if m@.dom().contains(string_of(name)) { Res::Ok(vv(m@[string_of(name)])) } else { Res::Err(ErrK::UnknownRef(name)) },
            _ => Res::Err(ErrK::InvalidType),
        }
    }
}

pub open spec fn sym_sem(rs: RuleSet, name: Seq<char>) -> Res {
    if rs.symbols.0@.dom().contains(string_of(name)) { Res::Ok(vv(rs.symbols.0@[string_of(name)])) } else { Res::Err(ErrK::InvalidSymbol(name)) }
}

// ---- C11: one call of a user function --------------------------------------------------------------------
pub open spec fn invoke(f: BoxedFunction, name: Seq<char>, arg: Val, st: St, remember: Option<String>) -> (Res, St) {
    let log1 = st.log.push(Call { name: f.spec_name()@, arg: arg });
    match uf(f, arg, st.log) {
        Ok(v) => (Res::Ok(vv(v)), St { cache: match remember { Some(key) => st.cache.insert(key, vv(v)), None => st.cache }, log: log1 }),
        Err(e) => (Res::Err(ErrK::UserFunction(name, e)), St { cache: st.cache, log: log1 }),      // failed calls are not remembered
    }
}

pub open spec fn call_sem(rs: RuleSet, name: Seq<char>, arg: Val, st: St) -> (Res, St) {
    call_sem_fm(rs.functions.functions@, name, arg, st)
}

pub open spec fn call_sem_fm(fmap: Map<&'static str, BoxedFunction>, name: Seq<char>, arg: Val, st: St) -> (Res, St) {
    if !fmap.dom().contains(str_of(name)) {
        (Res::Err(ErrK::UnknownUserFunction(name)), st)
    } else {
        let f = fmap[str_of(name)];
        if f.spec_cacheable() {
            let key = cache_key_of(name, arg);
            if st.cache.dom().contains(key) {
                (Res::Ok(st.cache[key]), st)                       // hit: no invocation
            } else {
                invoke(f, name, arg, st, Some(key))
            }
        } else {
            invoke(f, name, arg, st, None)                        // non-cacheable: every call is an invocation
        }
    }
}

// ---- strict / lazy combinators --------------------------------------------------------------------------
pub open spec fn un_res(ra: (Res, St), f: spec_fn(Val) -> Res) -> (Res, St) {
    match ra.0 { Res::Err(_) => ra, Res::Ok(v) => (f(v), ra.1) }
}

pub open spec fn bin_res(ra: (Res, St), rb: (Res, St), f: spec_fn(Val, Val) -> Res) -> (Res, St) {
    match ra.0 {
        Res::Err(_) => ra,                                           // first error ends the evaluation
        Res::Ok(a) => match rb.0 { Res::Err(_) => rb, Res::Ok(b) => (f(a, b), rb.1) },
    }
}

pub open spec fn to_bool(ra: (Res, St)) -> (core::result::Result<bool, ErrK>, St) {
    match ra.0 {
        Res::Err(e) => (Err(e), ra.1),
        Res::Ok(Val::Bool(b)) => (Ok(b), ra.1),
        Res::Ok(_) => (Err(ErrK::InvalidType), ra.1),                // includes None: conditions reject None (C04 exception)
    }
}

pub open spec fn lift_bool(rb: (core::result::Result<bool, ErrK>, St)) -> (Res, St) {
    match rb.0 { Ok(b) => (Res::Ok(Val::Bool(b)), rb.1), Err(e) => (Res::Err(e), rb.1) }
}
pub open spec fn lift_not_bool(rb: (core::result::Result<bool, ErrK>, St)) -> (Res, St) {
    match rb.0 { Ok(b) => (Res::Ok(Val::Bool(!b)), rb.1), Err(e) => (Res::Err(e), rb.1) }
}

pub open spec fn sem(e: Expr, rs: RuleSet, facts: Value, st: St) -> (Res, St)
    decreases e, 0nat,
{
    match e {
        Expr::Value(v) => (Res::Ok(vv(v)), st),
        Expr::Reference(name) => (ref_sem(facts, name@), st),
        Expr::Symbol(name) => (sym_sem(rs, name@), st),
        Expr::Index(x, idx) => un_res(sem(*x, rs, facts, st), |v: Val| t_index(v, iv(idx))),
        Expr::Function(name, x) => {
            let ra = sem(*x, rs, facts, st);
            match ra.0 { Res::Err(_) => ra, Res::Ok(v) => call_sem(rs, name@, v, ra.1) }
        },
        Expr::If(c, l, r) => {
            let rc = to_bool(sem(*c, rs, facts, st));
            if_res(rc, sem(*l, rs, facts, rc.1), sem(*r, rs, facts, rc.1))
        },
        Expr::Map(m) => {
            let rm = sem_map(m@, key_order(m@.dom()), key_order(m@.dom()).len(), rs, facts, st);
            match rm.0 { Err(e) => (Res::Err(e), rm.1), Ok(vm) => (Res::Ok(Val::Map(vm)), rm.1) }
        },
        Expr::Vec(v) => {
            let rl = sem_list(v@, v@.len(), rs, facts, st);
            match rl.0 { Err(e) => (Res::Err(e), rl.1), Ok(vs) => (Res::Ok(Val::List(vs)), rl.1) }
        },
        Expr::Not(x) => un_res(sem(*x, rs, facts, st), |v: Val| t_not(v)),
        Expr::Neg(x) => un_res(sem(*x, rs, facts, st), |v: Val| t_neg(v)),
        Expr::Some(x) => un_res(sem(*x, rs, facts, st), |v: Val| t_some(v)),
        Expr::None(x) => un_res(sem(*x, rs, facts, st), |v: Val| t_none(v)),
        Expr::Int(x) => un_res(sem(*x, rs, facts, st), |v: Val| t_int(v)),
        Expr::Float(x) => un_res(sem(*x, rs, facts, st), |v: Val| t_float(v)),
        Expr::Dec(x) => un_res(sem(*x, rs, facts, st), |v: Val| t_dec(v)),
        Expr::DateTime(x) => un_res(sem(*x, rs, facts, st), |v: Val| t_datetime(v)),
        Expr::Duration(x) => un_res(sem(*x, rs, facts, st), |v: Val| t_duration(v)),
        Expr::Mult(l, r) => { let ra = sem(*l, rs, facts, st); bin_res(ra, sem(*r, rs, facts, ra.1), |a: Val, b: Val| t_mult(a, b)) },
        Expr::Div(l, r) => { let ra = sem(*l, rs, facts, st); bin_res(ra, sem(*r, rs, facts, ra.1), |a: Val, b: Val| t_div(a, b)) },
        Expr::Rem(l, r) => { let ra = sem(*l, rs, facts, st); bin_res(ra, sem(*r, rs, facts, ra.1), |a: Val, b: Val| t_rem(a, b)) },
        Expr::Add(l, r) => { let ra = sem(*l, rs, facts, st); bin_res(ra, sem(*r, rs, facts, ra.1), |a: Val, b: Val| t_add(a, b)) },
        Expr::Sub(l, r) => { let ra = sem(*l, rs, facts, st); bin_res(ra, sem(*r, rs, facts, ra.1), |a: Val, b: Val| t_sub(a, b)) },
        Expr::Equals(l, r) => { let ra = sem(*l, rs, facts, st); lift_bool(eq_res(ra, sem(*r, rs, facts, ra.1))) },
        Expr::NotEquals(l, r) => { let ra = sem(*l, rs, facts, st); lift_not_bool(eq_res(ra, sem(*r, rs, facts, ra.1))) },
        Expr::GreaterThan(l, r) => { let ra = sem(*l, rs, facts, st); bin_res(ra, sem(*r, rs, facts, ra.1), |a: Val, b: Val| t_gt(a, b)) },
        Expr::GreaterThanEquals(l, r) => { let ra = sem(*l, rs, facts, st); bin_res(ra, sem(*r, rs, facts, ra.1), |a: Val, b: Val| t_gte(a, b)) },
        Expr::LessThan(l, r) => { let ra = sem(*l, rs, facts, st); bin_res(ra, sem(*r, rs, facts, ra.1), |a: Val, b: Val| t_lt(a, b)) },
        Expr::LessThanEquals(l, r) => { let ra = sem(*l, rs, facts, st); bin_res(ra, sem(*r, rs, facts, ra.1), |a: Val, b: Val| t_lte(a, b)) },
        Expr::And(l, r) => { let bl = to_bool(sem(*l, rs, facts, st)); and_res(bl, to_bool(sem(*r, rs, facts, bl.1))) },
        Expr::Or(l, r) => { let bl = to_bool(sem(*l, rs, facts, st)); or_res(bl, to_bool(sem(*r, rs, facts, bl.1))) },
        Expr::BitAnd(l, r) => { let ra = sem(*l, rs, facts, st); bin_res(ra, sem(*r, rs, facts, ra.1), |a: Val, b: Val| t_bitand(a, b)) },
        Expr::BitOr(l, r) => { let ra = sem(*l, rs, facts, st); bin_res(ra, sem(*r, rs, facts, ra.1), |a: Val, b: Val| t_bitor(a, b)) },
        Expr::BitXor(l, r) => { let ra = sem(*l, rs, facts, st); bin_res(ra, sem(*r, rs, facts, ra.1), |a: Val, b: Val| t_bitxor(a, b)) },
        Expr::Contains(c, i) => { let ra = sem(*c, rs, facts, st); bin_res(ra, sem(*i, rs, facts, ra.1), |a: Val, b: Val| t_contains(a, b)) },
        Expr::UpperCase(x) => un_res(sem(*x, rs, facts, st), |v: Val| t_uppercase(v)),
        Expr::LowerCase(x) => un_res(sem(*x, rs, facts, st), |v: Val| t_lowercase(v)),
        Expr::Trim(x) => un_res(sem(*x, rs, facts, st), |v: Val| t_trim(v)),
        Expr::Floor(x) => un_res(sem(*x, rs, facts, st), |v: Val| t_floor(v)),
        Expr::Round(x) => un_res(sem(*x, rs, facts, st), |v: Val| t_round(v)),
        Expr::Fract(x) => un_res(sem(*x, rs, facts, st), |v: Val| t_fract(v)),
        Expr::Year(x) => un_res(sem(*x, rs, facts, st), |v: Val| t_year(v)),
        Expr::Month(x) => un_res(sem(*x, rs, facts, st), |v: Val| t_month(v)),
        Expr::Week(x) => un_res(sem(*x, rs, facts, st), |v: Val| t_week(v)),
        Expr::Day(x) => un_res(sem(*x, rs, facts, st), |v: Val| t_day(v)),
        Expr::Hour(x) => un_res(sem(*x, rs, facts, st), |v: Val| t_hour(v)),
        Expr::Minute(x) => un_res(sem(*x, rs, facts, st), |v: Val| t_minute(v)),
        Expr::Second(x) => un_res(sem(*x, rs, facts, st), |v: Val| t_second(v)),
    }
}

/// `==`: the right operand is not evaluated when the left is None; None equals nothing (C04, C05).
/// (`rb` is the denotation of the right operand started in the state the left one ended in; it is only
/// *used* on the path where the real evaluator evaluates the right operand.)
pub open spec fn eq_res(ra: (Res, St), rb: (Res, St)) -> (core::result::Result<bool, ErrK>, St) {
    match ra.0 {
        Res::Err(e) => (Err(e), ra.1),
        Res::Ok(a) => if a is None { (Ok(false), ra.1) } else {
            match rb.0 { Res::Err(e) => (Err(e), rb.1), Res::Ok(b) => (Ok(val_eq(a, b)), rb.1) }
        },
    }
}

pub open spec fn and_res(bl: (core::result::Result<bool, ErrK>, St), br: (core::result::Result<bool, ErrK>, St)) -> (Res, St) {
    match bl.0 {
        Err(e) => (Res::Err(e), bl.1),
        Ok(false) => (Res::Ok(Val::Bool(false)), bl.1),              // right operand not evaluated
        Ok(true) => lift_bool(br),
    }
}

pub open spec fn or_res(bl: (core::result::Result<bool, ErrK>, St), br: (core::result::Result<bool, ErrK>, St)) -> (Res, St) {
    match bl.0 {
        Err(e) => (Res::Err(e), bl.1),
        Ok(true) => (Res::Ok(Val::Bool(true)), bl.1),                // right operand not evaluated
        Ok(false) => lift_bool(br),
    }
}

pub open spec fn if_res(rc: (core::result::Result<bool, ErrK>, St), rl: (Res, St), rr: (Res, St)) -> (Res, St) {
    match rc.0 {
        Err(e) => (Res::Err(e), rc.1),
        Ok(true) => rl,                                              // exactly one branch
        Ok(false) => rr,
    }
}

/// first `n` items of a list, left to right; the first error ends the evaluation
pub open spec fn sem_list(es: Seq<Expr>, n: nat, rs: RuleSet, facts: Value, st: St) -> (core::result::Result<Seq<Val>, ErrK>, St)
    decreases es, n,
{
    if n == 0 || n > es.len() {
        (Ok(Seq::<Val>::empty()), st)
    } else {
        let racc = sem_list(es, (n - 1) as nat, rs, facts, st);
        match racc.0 {
            Err(e) => racc,
            Ok(vs) => {
                let ri = sem(es[n - 1], rs, facts, racc.1);
                match ri.0 { Res::Err(e) => (Err(e), ri.1), Res::Ok(v) => (Ok(vs.push(v)), ri.1) }
            },
        }
    }
}

/// first `n` entries of a map, in key order
pub open spec fn sem_map(m: Map<String, Expr>, keys: Seq<String>, n: nat, rs: RuleSet, facts: Value, st: St) -> (core::result::Result<Map<String, Val>, ErrK>, St)
    decreases m, n,
{
    if n == 0 || n > keys.len() {
        (Ok(Map::<String, Val>::empty()), st)
    } else {
        let racc = sem_map(m, keys, (n - 1) as nat, rs, facts, st);
        match racc.0 {
            Err(e) => racc,
            Ok(vm) => {
                let k = keys[n - 1];
                if m.dom().contains(k) {
                    let ri = sem(m[k], rs, facts, racc.1);
                    match ri.0 { Res::Err(e) => (Err(e), ri.1), Res::Ok(v) => (Ok(vm.insert(k, v)), ri.1) }
                } else {
                    racc
                }
            },
        }
    }
}

/// frame of every function that takes `&mut EvalContext`: same ruleset, same facts, same cache *reference*
/// (the prophecy clause lets callers that own the cache learn its final contents)
#[verifier::prophetic]
pub open spec fn ctx_frame(o: EvalContext, n: EvalContext) -> bool {
    n.ruleset == o.ruleset && n.facts == o.facts && *final(n.function_cache) == *final(o.function_cache)
}

// ---- lemmas about the list / map denotations (used by the loop invariants of eval_vec / eval_map) ----------
pub proof fn lemma_sem_list_err(es: Seq<Expr>, k: nat, n: nat, rs: RuleSet, facts: Value, st: St)
    requires k <= n <= es.len(),
    ensures sem_list(es, k, rs, facts, st).0 is Err ==> sem_list(es, n, rs, facts, st) == sem_list(es, k, rs, facts, st),
    decreases n,
{
    if k < n { lemma_sem_list_err(es, k, (n - 1) as nat, rs, facts, st); }
}

pub proof fn lemma_sem_map_err(m: Map<String, Expr>, keys: Seq<String>, k: nat, n: nat, rs: RuleSet, facts: Value, st: St)
    requires k <= n <= keys.len(),
    ensures sem_map(m, keys, k, rs, facts, st).0 is Err ==> sem_map(m, keys, n, rs, facts, st) == sem_map(m, keys, k, rs, facts, st),
    decreases n,
{
    if k < n { lemma_sem_map_err(m, keys, k, (n - 1) as nat, rs, facts, st); }
}

pub proof fn lemma_vv_seq_push(s: Seq<Value>, v: Value)
    ensures vv_seq(s.push(v)) == vv_seq(s).push(vv(v)),
{
    assert(vv_seq(s.push(v)) =~= vv_seq(s).push(vv(v)));
}

pub proof fn lemma_vv_map_insert(m: Map<String, Value>, k: String, v: Value)
    ensures vv_map(m.insert(k, v)) == vv_map(m).insert(k, vv(v)),
{
    assert(vv_map(m.insert(k, v)) =~= vv_map(m).insert(k, vv(v)));
}

pub mod bc_vvmap {
use super::*;
/// broadcast forms (opt-in per function): the ghost image of a cache commutes with insert / domain / lookup, so that proofs
/// about code that updates the cache need no hint anchored to a particular statement
pub broadcast proof fn lemma_vv_map_insert_auto(m: Map<String, Value>, k: String, v: Value)
    ensures #[trigger] vv_map(m.insert(k, v)) == vv_map(m).insert(k, vv(v)),
{
    assert(vv_map(m.insert(k, v)) =~= vv_map(m).insert(k, vv(v)));
}
pub broadcast proof fn lemma_vv_map_empty()
    ensures #[trigger] vv_map(Map::<String, Value>::empty()) == Map::<String, Val>::empty(),
{
    assert(vv_map(Map::<String, Value>::empty()) =~= Map::<String, Val>::empty());
}
pub broadcast proof fn lemma_vv_seq_empty()
    ensures #[trigger] vv_seq(Seq::<Value>::empty()) == Seq::<Val>::empty(),
{
    assert(vv_seq(Seq::<Value>::empty()) =~= Seq::<Val>::empty());
}
pub broadcast proof fn lemma_vv_map_dom_auto(m: Map<String, Value>, k: String)
    ensures (#[trigger] vv_map(m).dom().contains(k)) == m.dom().contains(k),
            m.dom().contains(k) ==> (#[trigger] vv_map(m)[k]) == vv(m[k]),
{}
}
pub use bc_vvmap::*;

// ---- state of a real evaluation context ---------------------------------------------------------------
pub open spec fn mk_st(cache: Map<String, Value>, log: Log) -> St { St { cache: vv_map(cache), log: log.calls } }

// ---- termination measure for the mutually recursive evaluator functions (C01: evaluation completes) ----
pub open spec fn esize(e: Expr) -> nat
    decreases e, 0nat,
{
    match e {
        Expr::Value(_) => 1,
        Expr::Reference(_) => 1,
        Expr::Symbol(_) => 1,
        Expr::Function(_, x) => 1 + esize(*x),
        Expr::Index(x, _) => 1 + esize(*x),
        Expr::If(c, l, r) => 1 + esize(*c) + esize(*l) + esize(*r),
        Expr::Map(m) => 1 + esize_map(m@, key_order(m@.dom()), key_order(m@.dom()).len()),
        Expr::Vec(v) => 1 + esize_list(v@, v@.len()),
        Expr::Not(x) => 1 + esize(*x), Expr::Neg(x) => 1 + esize(*x), Expr::Some(x) => 1 + esize(*x), Expr::None(x) => 1 + esize(*x),
        Expr::Int(x) => 1 + esize(*x), Expr::Float(x) => 1 + esize(*x), Expr::Dec(x) => 1 + esize(*x),
        Expr::DateTime(x) => 1 + esize(*x), Expr::Duration(x) => 1 + esize(*x),
        Expr::UpperCase(x) => 1 + esize(*x), Expr::LowerCase(x) => 1 + esize(*x), Expr::Trim(x) => 1 + esize(*x),
        Expr::Floor(x) => 1 + esize(*x), Expr::Round(x) => 1 + esize(*x), Expr::Fract(x) => 1 + esize(*x),
        Expr::Year(x) => 1 + esize(*x), Expr::Month(x) => 1 + esize(*x), Expr::Week(x) => 1 + esize(*x), Expr::Day(x) => 1 + esize(*x),
        Expr::Hour(x) => 1 + esize(*x), Expr::Minute(x) => 1 + esize(*x), Expr::Second(x) => 1 + esize(*x),
        Expr::Mult(l, r) => 1 + esize(*l) + esize(*r), Expr::Div(l, r) => 1 + esize(*l) + esize(*r), Expr::Rem(l, r) => 1 + esize(*l) + esize(*r),
        Expr::Add(l, r) => 1 + esize(*l) + esize(*r), Expr::Sub(l, r) => 1 + esize(*l) + esize(*r),
        Expr::Equals(l, r) => 1 + esize(*l) + esize(*r), Expr::NotEquals(l, r) => 1 + esize(*l) + esize(*r),
        Expr::GreaterThan(l, r) => 1 + esize(*l) + esize(*r), Expr::GreaterThanEquals(l, r) => 1 + esize(*l) + esize(*r),
        Expr::LessThan(l, r) => 1 + esize(*l) + esize(*r), Expr::LessThanEquals(l, r) => 1 + esize(*l) + esize(*r),
        Expr::And(l, r) => 1 + esize(*l) + esize(*r), Expr::Or(l, r) => 1 + esize(*l) + esize(*r),
        Expr::BitAnd(l, r) => 1 + esize(*l) + esize(*r), Expr::BitOr(l, r) => 1 + esize(*l) + esize(*r), Expr::BitXor(l, r) => 1 + esize(*l) + esize(*r),
        Expr::Contains(l, r) => 1 + esize(*l) + esize(*r),
    }
}

pub open spec fn esize_list(es: Seq<Expr>, n: nat) -> nat
    decreases es, n,
{
    if n == 0 || n > es.len() { 0 } else { esize_list(es, (n - 1) as nat) + esize(es[n - 1]) }
}

pub open spec fn esize_map(m: Map<String, Expr>, keys: Seq<String>, n: nat) -> nat
    decreases m, n,
{
    if n == 0 || n > keys.len() { 0 } else {
        esize_map(m, keys, (n - 1) as nat) + (if m.dom().contains(keys[n - 1]) { esize(m[keys[n - 1]]) } else { 0 })
    }
}

pub proof fn lemma_esize_list_elem(es: Seq<Expr>, n: nat, i: int)
    requires 0 <= i < n <= es.len(),
    ensures esize(es[i]) <= esize_list(es, n),
    decreases n,
{
    if i < n - 1 { lemma_esize_list_elem(es, (n - 1) as nat, i); }
}

pub proof fn lemma_esize_map_elem(m: Map<String, Expr>, keys: Seq<String>, n: nat, i: int)
    requires 0 <= i < n <= keys.len(), m.dom().contains(keys[i]),
    ensures esize(m[keys[i]]) <= esize_map(m, keys, n),
    decreases n,
{
    if i < n - 1 { lemma_esize_map_elem(m, keys, (n - 1) as nat, i); }
}

// ---- C09: the state in which rule `n` of a ruleset is evaluated --------------------------------------------
pub open spec fn rules_state(rules: Seq<Rule>, n: nat, rs: RuleSet, facts: Value, st0: St) -> St
    decreases n,
{
    if n == 0 || n > rules.len() { st0 } else { sem(rules[n - 1].expr, rs, facts, rules_state(rules, (n - 1) as nat, rs, facts, st0)).1 }
}

