// ---- the crate's own data types, copied verbatim from /repo (attributes and doc comments dropped) ------
//@type src/value/mod.rs enum Value
//@type src/expr/index.rs enum Index
//@type src/error.rs type Result
//@type src/error.rs enum Error

// anyhow::Error: opaque
pub mod anyhow {
    use super::*;
    #[verifier::external_body]
    pub struct Error { _p: () }
}
pub type AnyErr = anyhow::Error;
pub open spec fn any_err(e: anyhow::Error) -> AnyErr { e }

// ASSUMED: derived Clone returns an equal value; derived PartialEq is structural (val_eq)
impl Clone for Value {
    #[verifier::external_body]
    fn clone(&self) -> (r: Self) ensures r == *self { unimplemented!() }
}
impl vstd::std_specs::cmp::PartialEqSpecImpl for Value {
    open spec fn obeys_eq_spec() -> bool { true }
    open spec fn eq_spec(&self, other: &Value) -> bool { val_eq(vv(*self), vv(*other)) }
}
impl PartialEq for Value {
    #[verifier::external_body]
    fn eq(&self, other: &Value) -> bool { unimplemented!() }
}

// derived Debug (only its existence matters to the type checker; what it writes is `debug_val`, see axiom_fmt_debug_value)
impl core::fmt::Debug for Value {
    #[verifier::external_body]
    fn fmt(&self, f: &mut core::fmt::Formatter<'_>) -> core::fmt::Result { unimplemented!() }
}

// `#[from]` on Error::NumericOverflow (thiserror): ASSUMED to generate the obvious From impl
impl vstd::std_specs::convert::FromSpecImpl<TryFromIntError> for Error {
    open spec fn obeys_from_spec() -> bool { true }
    open spec fn from_spec(v: TryFromIntError) -> Error { overflow_err(v) }
}
impl From<TryFromIntError> for Error {
    #[verifier::external_body]
    fn from(source: TryFromIntError) -> Error { unimplemented!() }
}

// `impl Display for Value` exists in the crate (src/value/mod.rs, not under contract); only its existence matters here: what it
// writes is the uninterpreted `fmt_display::<Value>`, deliberately unrelated to `debug_val`, so a cache key built with `{param}`
// instead of `{param:?}` is refuted (C11) rather than being a tool limit
impl core::fmt::Display for Value {
    #[verifier::external_body]
    fn fmt(&self, f: &mut core::fmt::Formatter<'_>) -> core::fmt::Result { unimplemented!() }
}
