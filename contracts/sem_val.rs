// =================================================================================================
// Ghost semantic domain (the oracle).  Written from the property statements C01-C05, C10; cells
// the statements leave open are pinned to today's behaviour and marked [pinned].
// =================================================================================================

pub enum Val {
    Str(Seq<char>),
    Int(int),
    Float(f64),
    Dec(Decimal),
    Bool(bool),
    Dt(DateTime<Utc>),
    Dur(TimeDelta),
    List(Seq<Val>),
    Map(Map<String, Val>),
    None,
}

/// error classes of the operator table (C02: "type mismatch, division by zero, invalid cast, out of bounds")
/// plus the lookup / user-function errors of C10 / C11 ("an error naming it")
pub enum ErrK {
    InvalidType,
    DivisionByZero,
    InvalidCast,
    OutOfBounds,
    UnknownRef(Seq<char>),
    InvalidSymbol(Seq<char>),
    UnknownUserFunction(Seq<char>),
    UserFunction(Seq<char>, AnyErr),
    Other,
}

pub enum Res {
    Ok(Val),
    Err(ErrK),
}

/// recursive view of a runtime Value
pub open spec fn vv(v: Value) -> Val
    decreases v,
{
    match v {
        Value::String(s) => Val::Str(s@),
        Value::Int(i) => Val::Int(i as int),
        Value::Float(f) => Val::Float(f),
        Value::Decimal(d) => Val::Dec(d),
        Value::Bool(b) => Val::Bool(b),
        Value::DateTime(d) => Val::Dt(d),
        Value::Duration(d) => Val::Dur(d),
        Value::Vec(l) => Val::List(vv_seq(l@)),
        Value::Map(m) => Val::Map(vv_map(m@)),
        Value::None => Val::None,
    }
}

pub open spec fn vv_seq(s: Seq<Value>) -> Seq<Val>
    decreases s,
{
    Seq::new(s.len(), |i: int| if 0 <= i < s.len() { vv(s[i]) } else { Val::None })
}

pub open spec fn vv_map(m: Map<String, Value>) -> Map<String, Val>
    decreases m,
{
    Map::new(m.dom(), |k: String| if m.dom().contains(k) { vv(m[k]) } else { Val::None })
}

/// Strings are values: equal views = equal strings (the only observation Verus has of a String is its view)
#[verifier::external_body]
pub proof fn axiom_string_ext(a: String, b: String)
    ensures a@ == b@ ==> a == b,
{}

/// `String` built from a view (ghost only) -- with axiom_string_ext this is the unique such String
pub uninterp spec fn string_of(s: Seq<char>) -> String;
pub mod ax_strof {
use super::*;
#[verifier::external_body]
pub broadcast proof fn axiom_string_of(s: Seq<char>) ensures #[trigger] string_of(s)@ == s {}
}
pub use ax_strof::*;


pub mod ax_str {
use super::*;
/// broadcast form of axiom_string_ext (opt-in per function: it instantiates on every pair of string views)
#[verifier::external_body]
pub broadcast proof fn axiom_string_ext_auto(a: String, b: String)
    ensures (#[trigger] a@) == (#[trigger] b@) ==> a == b,
{}
}
pub use ax_str::*;

pub open spec fn ek(e: Error) -> ErrK {
    match e {
        Error::InvalidType => ErrK::InvalidType,
        Error::DivisionByZero => ErrK::DivisionByZero,
        Error::InvalidCast(_, _) => ErrK::InvalidCast,
        Error::ValueOutOfBounds(_, _) => ErrK::OutOfBounds,
        Error::UnknownRef(n) => ErrK::UnknownRef(n@),
        Error::InvalidSymbol(n) => ErrK::InvalidSymbol(n@),
        Error::UnknownUserFunction(n) => ErrK::UnknownUserFunction(n@),
        Error::UserFunctionError { function, error } => ErrK::UserFunction(function@, any_err(error)),
        _ => ErrK::Other,
    }
}

pub open spec fn rv(r: Result<Value>) -> Res {
    match r {
        Ok(v) => Res::Ok(vv(v)),
        Err(e) => Res::Err(ek(e)),
    }
}

pub open spec fn in_i128(x: int) -> bool { i128::MIN <= x <= i128::MAX }
pub open spec fn in_i64(x: int) -> bool { i64::MIN <= x <= i64::MAX }

pub open spec fn is_num(v: Val) -> bool { v is Int || v is Float || v is Dec }

/// type tag 0..9
pub open spec fn tag(v: Val) -> int {
    match v {
        Val::Str(_) => 0, Val::Int(_) => 1, Val::Float(_) => 2, Val::Dec(_) => 3, Val::Bool(_) => 4,
        Val::Dt(_) => 5, Val::Dur(_) => 6, Val::List(_) => 7, Val::Map(_) => 8, Val::None => 9,
    }
}

pub open spec fn ok_int(x: int) -> Res { if in_i128(x) { Res::Ok(Val::Int(x)) } else { Res::Err(ErrK::OutOfBounds) } }
pub open spec fn ok_bool(b: bool) -> Res { Res::Ok(Val::Bool(b)) }
pub open spec fn ok_dec(o: Option<Decimal>, e: ErrK) -> Res { match o { Some(d) => Res::Ok(Val::Dec(d)), None => Res::Err(e) } }
pub open spec fn ok_dt(o: Option<DateTime<Utc>>, e: ErrK) -> Res { match o { Some(d) => Res::Ok(Val::Dt(d)), None => Res::Err(e) } }
pub open spec fn ok_dur(o: Option<TimeDelta>, e: ErrK) -> Res { match o { Some(d) => Res::Ok(Val::Dur(d)), None => Res::Err(e) } }
pub open spec fn ok_i128(o: Option<i128>, e: ErrK) -> Res { match o { Some(d) => Res::Ok(Val::Int(d as int)), None => Res::Err(e) } }
pub open spec fn ok_f64(o: Option<f64>, e: ErrK) -> Res { match o { Some(d) => Res::Ok(Val::Float(d)), None => Res::Err(e) } }

// float comparisons / arithmetic are the uninterpreted IEEE operations of vstd
pub open spec fn f_lt(a: f64, b: f64) -> bool { a.partial_cmp_spec(&b) == Some(core::cmp::Ordering::Less) }
pub open spec fn f_gt(a: f64, b: f64) -> bool { a.partial_cmp_spec(&b) == Some(core::cmp::Ordering::Greater) }
pub open spec fn f_le(a: f64, b: f64) -> bool { a.partial_cmp_spec(&b) == Some(core::cmp::Ordering::Less) || a.partial_cmp_spec(&b) == Some(core::cmp::Ordering::Equal) }
pub open spec fn f_ge(a: f64, b: f64) -> bool { a.partial_cmp_spec(&b) == Some(core::cmp::Ordering::Greater) || a.partial_cmp_spec(&b) == Some(core::cmp::Ordering::Equal) }

// ---- arithmetic ------------------------------------------------------------------------------------
pub open spec fn t_add(a: Val, b: Val) -> Res {
    match (a, b) {
        (Val::Int(x), Val::Int(y)) => ok_int(x + y),
        (Val::Float(x), Val::Float(y)) => Res::Ok(Val::Float(x.add_spec(y))),
        (Val::Dec(x), Val::Dec(y)) => ok_dec(dec_checked_add(x, y), ErrK::OutOfBounds),
        (Val::Dt(x), Val::Dur(y)) => ok_dt(dt_checked_add(x, y), ErrK::OutOfBounds),          // [pinned] DateTime + Duration
        (Val::None, _) => Res::Ok(Val::None),
        (_, Val::None) => Res::Ok(Val::None),
        _ => Res::Err(ErrK::InvalidType),
    }
}

pub open spec fn t_sub(a: Val, b: Val) -> Res {
    match (a, b) {
        (Val::Int(x), Val::Int(y)) => ok_int(x - y),
        (Val::Float(x), Val::Float(y)) => Res::Ok(Val::Float(x.sub_spec(y))),
        (Val::Dec(x), Val::Dec(y)) => ok_dec(dec_checked_sub(x, y), ErrK::OutOfBounds),
        (Val::Dt(x), Val::Dt(y)) => Res::Ok(Val::Dur(dt_since(x, y))),                        // [pinned]
        (Val::Dt(x), Val::Dur(y)) => ok_dt(dt_checked_sub(x, y), ErrK::OutOfBounds),          // [pinned]
        (Val::Dur(x), Val::Dur(y)) => ok_dur(td_checked_sub(x, y), ErrK::OutOfBounds),        // [pinned]
        (Val::None, _) => Res::Ok(Val::None),
        (_, Val::None) => Res::Ok(Val::None),
        _ => Res::Err(ErrK::InvalidType),
    }
}

pub open spec fn t_mult(a: Val, b: Val) -> Res {
    match (a, b) {
        (Val::Int(x), Val::Int(y)) => ok_int(x * y),
        (Val::Float(x), Val::Float(y)) => Res::Ok(Val::Float(x.mul_spec(y))),
        (Val::Dec(x), Val::Dec(y)) => ok_dec(dec_checked_mul(x, y), ErrK::OutOfBounds),
        (Val::None, _) => Res::Ok(Val::None),
        (_, Val::None) => Res::Ok(Val::None),
        _ => Res::Err(ErrK::InvalidType),
    }
}

/// Int `/` and `%` are pinned to std's `i128::checked_div` / `checked_rem` (truncating division; `None` for a
/// zero divisor and for i128::MIN / -1) exactly as vstd specifies them; the closed form for positive divisors
/// is restated by the clauses div.int_pos / rem.int_pos.
pub open spec fn i128_checked_div(x: i128, y: i128) -> Option<i128> { choose|o: Option<i128>| call_ensures(i128::checked_div, (x, y), o) }
pub open spec fn i128_checked_rem(x: i128, y: i128) -> Option<i128> { choose|o: Option<i128>| call_ensures(i128::checked_rem, (x, y), o) }

pub open spec fn t_div(a: Val, b: Val) -> Res {
    match (a, b) {
        // [pinned] i128::MIN / -1 is reported through the same error as division by zero
        (Val::Int(x), Val::Int(y)) => ok_i128(i128_checked_div(x as i128, y as i128), ErrK::DivisionByZero),
        (Val::Float(x), Val::Float(y)) => Res::Ok(Val::Float(x.div_spec(y))),
        (Val::Dec(x), Val::Dec(y)) => ok_dec(dec_checked_div(x, y), ErrK::DivisionByZero),
        (Val::None, _) => Res::Ok(Val::None),
        (_, Val::None) => Res::Ok(Val::None),
        _ => Res::Err(ErrK::InvalidType),
    }
}

pub open spec fn t_rem(a: Val, b: Val) -> Res {
    match (a, b) {
        (Val::Int(x), Val::Int(y)) => ok_i128(i128_checked_rem(x as i128, y as i128), ErrK::DivisionByZero),
        (Val::Float(x), Val::Float(y)) => Res::Ok(Val::Float(x.rem_spec(y))),
        (Val::Dec(x), Val::Dec(y)) => ok_dec(dec_checked_rem(x, y), ErrK::DivisionByZero),
        (Val::None, _) => Res::Ok(Val::None),
        (_, Val::None) => Res::Ok(Val::None),
        _ => Res::Err(ErrK::InvalidType),
    }
}

pub open spec fn t_neg(a: Val) -> Res {
    match a {
        Val::Int(x) => ok_int(-x),
        Val::Float(x) => Res::Ok(Val::Float(x.neg_spec())),
        Val::Dec(x) => Res::Ok(Val::Dec(dec_neg(x))),
        Val::None => Res::Ok(Val::None),
        _ => Res::Err(ErrK::InvalidType),
    }
}

pub open spec fn t_not(a: Val) -> Res {
    match a {
        Val::Bool(x) => ok_bool(!x),
        Val::None => Res::Ok(Val::None),
        _ => Res::Err(ErrK::InvalidType),
    }
}

pub open spec fn t_some(a: Val) -> Res { ok_bool(!(a is None)) }
pub open spec fn t_none(a: Val) -> Res { ok_bool(a is None) }

// ---- ordering ----------------------------------------------------------------------------------------
pub open spec fn t_gt(a: Val, b: Val) -> Res {
    match (a, b) {
        (Val::Int(x), Val::Int(y)) => ok_bool(x > y),
        (Val::Float(x), Val::Float(y)) => ok_bool(f_gt(x, y)),
        (Val::Dec(x), Val::Dec(y)) => ok_bool(!dec_lt(x, y) && !dec_eq(x, y)),
        (Val::Dt(x), Val::Dt(y)) => ok_bool(!dt_lt(x, y) && !dt_eq(x, y)),
        (Val::Dur(x), Val::Dur(y)) => ok_bool(!td_lt(x, y) && !td_eq(x, y)),
        (Val::None, _) => ok_bool(false),
        (_, Val::None) => ok_bool(false),
        _ => Res::Err(ErrK::InvalidType),
    }
}
pub open spec fn t_gte(a: Val, b: Val) -> Res {
    match (a, b) {
        (Val::Int(x), Val::Int(y)) => ok_bool(x >= y),
        (Val::Float(x), Val::Float(y)) => ok_bool(f_ge(x, y)),
        (Val::Dec(x), Val::Dec(y)) => ok_bool(!dec_lt(x, y)),
        (Val::Dt(x), Val::Dt(y)) => ok_bool(!dt_lt(x, y)),
        (Val::Dur(x), Val::Dur(y)) => ok_bool(!td_lt(x, y)),
        (Val::None, _) => ok_bool(false),
        (_, Val::None) => ok_bool(false),
        _ => Res::Err(ErrK::InvalidType),
    }
}
pub open spec fn t_lt(a: Val, b: Val) -> Res {
    match (a, b) {
        (Val::Int(x), Val::Int(y)) => ok_bool(x < y),
        (Val::Float(x), Val::Float(y)) => ok_bool(f_lt(x, y)),
        (Val::Dec(x), Val::Dec(y)) => ok_bool(dec_lt(x, y)),
        (Val::Dt(x), Val::Dt(y)) => ok_bool(dt_lt(x, y)),
        (Val::Dur(x), Val::Dur(y)) => ok_bool(td_lt(x, y)),
        (Val::None, _) => ok_bool(false),
        (_, Val::None) => ok_bool(false),
        _ => Res::Err(ErrK::InvalidType),
    }
}
pub open spec fn t_lte(a: Val, b: Val) -> Res {
    match (a, b) {
        (Val::Int(x), Val::Int(y)) => ok_bool(x <= y),
        (Val::Float(x), Val::Float(y)) => ok_bool(f_le(x, y)),
        (Val::Dec(x), Val::Dec(y)) => ok_bool(dec_lt(x, y) || dec_eq(x, y)),
        (Val::Dt(x), Val::Dt(y)) => ok_bool(dt_lt(x, y) || dt_eq(x, y)),
        (Val::Dur(x), Val::Dur(y)) => ok_bool(td_lt(x, y) || td_eq(x, y)),
        (Val::None, _) => ok_bool(false),
        (_, Val::None) => ok_bool(false),
        _ => Res::Err(ErrK::InvalidType),
    }
}

// ---- bitwise -----------------------------------------------------------------------------------------
pub open spec fn t_bitand(a: Val, b: Val) -> Res {
    match (a, b) {
        (Val::Int(x), Val::Int(y)) => Res::Ok(Val::Int(((x as i128) & (y as i128)) as int)),
        (Val::Bool(x), Val::Bool(y)) => ok_bool(x && y),
        (Val::None, _) => Res::Ok(Val::None),
        (_, Val::None) => Res::Ok(Val::None),
        _ => Res::Err(ErrK::InvalidType),
    }
}
pub open spec fn t_bitor(a: Val, b: Val) -> Res {
    match (a, b) {
        (Val::Int(x), Val::Int(y)) => Res::Ok(Val::Int(((x as i128) | (y as i128)) as int)),
        (Val::Bool(x), Val::Bool(y)) => ok_bool(x || y),
        (Val::None, _) => Res::Ok(Val::None),
        (_, Val::None) => Res::Ok(Val::None),
        _ => Res::Err(ErrK::InvalidType),
    }
}
pub open spec fn t_bitxor(a: Val, b: Val) -> Res {
    match (a, b) {
        (Val::Int(x), Val::Int(y)) => Res::Ok(Val::Int(((x as i128) ^ (y as i128)) as int)),
        (Val::Bool(x), Val::Bool(y)) => ok_bool(x != y),
        (Val::None, _) => Res::Ok(Val::None),
        (_, Val::None) => Res::Ok(Val::None),
        _ => Res::Err(ErrK::InvalidType),
    }
}

// ---- equality (C03: different types => false; C04: None equals nothing) ---------------------------------
/// `==` on two values as the derived PartialEq computes it: structural, IEEE `==` on floats,
/// numeric `==` on decimals (assumption 4 of the ledger)
pub open spec fn val_eq(a: Val, b: Val) -> bool
    decreases a,
{
    match (a, b) {
        (Val::Str(x), Val::Str(y)) => x == y,
        (Val::Int(x), Val::Int(y)) => x == y,
        (Val::Float(x), Val::Float(y)) => x.eq_spec(&y),
        (Val::Dec(x), Val::Dec(y)) => dec_eq(x, y),
        (Val::Bool(x), Val::Bool(y)) => x == y,
        (Val::Dt(x), Val::Dt(y)) => dt_eq(x, y),
        (Val::Dur(x), Val::Dur(y)) => td_eq(x, y),
        (Val::List(x), Val::List(y)) => x.len() == y.len() && forall|i: int| 0 <= i < x.len() ==> val_eq(#[trigger] x[i], y[i]),
        (Val::Map(x), Val::Map(y)) => x.dom() =~= y.dom() && forall|k: String| x.dom().contains(k) ==> val_eq(#[trigger] x[k], y[k]),
        (Val::None, Val::None) => true,
        _ => false,
    }
}

// ---- membership --------------------------------------------------------------------------------------
pub uninterp spec fn str_contains(hay: Seq<char>, needle: Seq<char>) -> bool;

pub open spec fn list_has(l: Seq<Val>, x: Val) -> bool { exists|j: int| 0 <= j < l.len() && val_eq(#[trigger] l[j], x) }
pub open spec fn map_has_key(m: Map<String, Val>, k: Seq<char>) -> bool { exists|ks: String| #[trigger] m.dom().contains(ks) && ks@ == k }

pub open spec fn t_contains(c: Val, i: Val) -> Res {
    match (c, i) {
        (Val::Map(m), Val::Str(k)) => ok_bool(map_has_key(m, k)),
        (Val::List(l), x) => ok_bool(list_has(l, x)),
        (Val::Str(h), Val::Str(n)) => ok_bool(str_contains(h, n)),
        (Val::Int(f), Val::Int(g)) => ok_bool(((f as i128) & (g as i128)) != 0),           // [pinned] flag test
        (Val::None, _) => ok_bool(false),
        _ => Res::Err(ErrK::InvalidType),
    }
}

// ---- casts -------------------------------------------------------------------------------------------
pub uninterp spec fn i128_from_str(s: Seq<char>) -> Option<i128>;
pub uninterp spec fn f64_from_str(s: Seq<char>) -> Option<f64>;

pub open spec fn t_int(a: Val) -> Res {
    match a {
        Val::Int(_) => Res::Ok(a),
        Val::Float(f) => ok_i128(f64_to_i128(f), ErrK::InvalidCast),
        Val::Dec(d) => ok_i128(dec_to_i128(d), ErrK::InvalidCast),
        Val::Str(s) => ok_i128(i128_from_str(s), ErrK::InvalidCast),
        Val::None => Res::Ok(Val::None),
        _ => Res::Err(ErrK::InvalidType),
    }
}
/// float(Int) is `i as f64` (round to nearest).  Verus gives exec int->float casts no spec, so the cast is routed
/// through the boundary function `cast_i128_as_f64` (R10) whose assumed contract is only that the cast is a
/// deterministic function of its operand.
pub uninterp spec fn i128_to_f64(i: i128) -> f64;
pub open spec fn t_float(a: Val) -> Res {
    match a {
        Val::Int(i) => Res::Ok(Val::Float(i128_to_f64(i as i128))),
        Val::Float(_) => Res::Ok(a),
        Val::Dec(d) => ok_f64(dec_to_f64(d), ErrK::InvalidCast),
        Val::Str(s) => ok_f64(f64_from_str(s), ErrK::InvalidCast),
        Val::None => Res::Ok(Val::None),
        _ => Res::Err(ErrK::InvalidType),
    }
}
pub open spec fn t_dec(a: Val) -> Res {
    match a {
        Val::Int(i) => ok_dec(dec_from_i128(i as i128), ErrK::InvalidCast),
        Val::Float(f) => ok_dec(dec_from_f64(f), ErrK::InvalidCast),
        Val::Dec(_) => Res::Ok(a),
        Val::Str(s) => ok_dec(dec_from_str(s), ErrK::InvalidCast),
        Val::None => Res::Ok(Val::None),
        _ => Res::Err(ErrK::InvalidType),
    }
}
pub open spec fn t_datetime(a: Val) -> Res {
    match a {
        Val::Str(s) => ok_dt(dt_from_str(s), ErrK::InvalidCast),
        Val::Int(i) => if in_i64(i) { ok_dt(dt_from_timestamp(i as i64, 0), ErrK::InvalidCast) } else { Res::Err(ErrK::InvalidCast) },
        Val::Dt(_) => Res::Ok(a),
        Val::None => Res::Ok(Val::None),
        _ => Res::Err(ErrK::InvalidType),
    }
}
pub open spec fn t_duration(a: Val) -> Res {
    match a {
        Val::Int(i) => if in_i64(i) { ok_dur(td_try_seconds(i as i64), ErrK::InvalidCast) } else { Res::Err(ErrK::InvalidCast) },
        Val::Dur(_) => Res::Ok(a),
        Val::None => Res::Ok(Val::None),
        _ => Res::Err(ErrK::InvalidType),
    }
}

// ---- strings -----------------------------------------------------------------------------------------
pub uninterp spec fn str_upper(s: Seq<char>) -> Seq<char>;
pub uninterp spec fn str_lower(s: Seq<char>) -> Seq<char>;
pub uninterp spec fn str_trim(s: Seq<char>) -> Seq<char>;

pub open spec fn t_uppercase(a: Val) -> Res {
    match a { Val::Str(s) => Res::Ok(Val::Str(str_upper(s))), Val::None => Res::Ok(Val::None), _ => Res::Err(ErrK::InvalidType) }
}
pub open spec fn t_lowercase(a: Val) -> Res {
    match a { Val::Str(s) => Res::Ok(Val::Str(str_lower(s))), Val::None => Res::Ok(Val::None), _ => Res::Err(ErrK::InvalidType) }
}
pub open spec fn t_trim(a: Val) -> Res {
    match a { Val::Str(s) => Res::Ok(Val::Str(str_trim(s))), Val::None => Res::Ok(Val::None), _ => Res::Err(ErrK::InvalidType) }
}

// ---- rounding ----------------------------------------------------------------------------------------
pub uninterp spec fn f64_floor(a: f64) -> f64;
pub uninterp spec fn f64_round(a: f64) -> f64;   // round half away from zero (std f64::round)
pub uninterp spec fn f64_fract(a: f64) -> f64;

pub open spec fn t_floor(a: Val) -> Res {
    match a { Val::Float(f) => Res::Ok(Val::Float(f64_floor(f))), Val::Dec(d) => Res::Ok(Val::Dec(dec_floor(d))), Val::None => Res::Ok(Val::None), _ => Res::Err(ErrK::InvalidType) }
}
pub open spec fn t_round(a: Val) -> Res {
    match a { Val::Float(f) => Res::Ok(Val::Float(f64_round(f))), Val::Dec(d) => Res::Ok(Val::Dec(dec_round(d))), Val::None => Res::Ok(Val::None), _ => Res::Err(ErrK::InvalidType) }
}
pub open spec fn t_fract(a: Val) -> Res {
    match a { Val::Float(f) => Res::Ok(Val::Float(f64_fract(f))), Val::Dec(d) => Res::Ok(Val::Dec(dec_fract(d))), Val::None => Res::Ok(Val::None), _ => Res::Err(ErrK::InvalidType) }
}

// ---- date / time -------------------------------------------------------------------------------------
pub open spec fn t_year(a: Val) -> Res {
    match a { Val::Dt(d) => Res::Ok(Val::Int(dt_year(d) as int)), Val::None => Res::Ok(Val::None), _ => Res::Err(ErrK::InvalidType) }
}
pub open spec fn t_month(a: Val) -> Res {
    match a { Val::Dt(d) => Res::Ok(Val::Int(dt_month(d) as int)), Val::None => Res::Ok(Val::None), _ => Res::Err(ErrK::InvalidType) }
}
pub open spec fn t_week(a: Val) -> Res {
    match a {
        Val::Int(i) => if in_i64(i) { ok_dur(td_try_weeks(i as i64), ErrK::OutOfBounds) } else { Res::Err(ErrK::OutOfBounds) },
        Val::Dur(d) => Res::Ok(Val::Int(td_num_weeks(d) as int)),
        Val::None => Res::Ok(Val::None),
        _ => Res::Err(ErrK::InvalidType),
    }
}
pub open spec fn t_day(a: Val) -> Res {
    match a {
        Val::Int(i) => if in_i64(i) { ok_dur(td_try_days(i as i64), ErrK::OutOfBounds) } else { Res::Err(ErrK::OutOfBounds) },
        Val::Dt(d) => Res::Ok(Val::Int(dt_day(d) as int)),
        Val::Dur(d) => Res::Ok(Val::Int(td_num_days(d) as int)),
        Val::None => Res::Ok(Val::None),
        _ => Res::Err(ErrK::InvalidType),
    }
}
pub open spec fn t_hour(a: Val) -> Res {
    match a {
        Val::Int(i) => if in_i64(i) { ok_dur(td_try_hours(i as i64), ErrK::OutOfBounds) } else { Res::Err(ErrK::OutOfBounds) },
        Val::Dt(d) => Res::Ok(Val::Int(dt_hour(d) as int)),
        Val::Dur(d) => Res::Ok(Val::Int(td_num_hours(d) as int)),
        Val::None => Res::Ok(Val::None),
        _ => Res::Err(ErrK::InvalidType),
    }
}
pub open spec fn t_minute(a: Val) -> Res {
    match a {
        Val::Int(i) => if in_i64(i) { ok_dur(td_try_minutes(i as i64), ErrK::OutOfBounds) } else { Res::Err(ErrK::OutOfBounds) },
        Val::Dt(d) => Res::Ok(Val::Int(dt_minute(d) as int)),
        Val::Dur(d) => Res::Ok(Val::Int(td_num_minutes(d) as int)),
        Val::None => Res::Ok(Val::None),
        _ => Res::Err(ErrK::InvalidType),
    }
}
pub open spec fn t_second(a: Val) -> Res {
    match a {
        Val::Int(i) => if in_i64(i) { ok_dur(td_try_seconds(i as i64), ErrK::OutOfBounds) } else { Res::Err(ErrK::OutOfBounds) },
        Val::Dt(d) => Res::Ok(Val::Int(dt_second(d) as int)),
        Val::Dur(d) => Res::Ok(Val::Int(td_num_seconds(d) as int)),
        Val::None => Res::Ok(Val::None),
        _ => Res::Err(ErrK::InvalidType),
    }
}

// ---- indexing (C10) ----------------------------------------------------------------------------------
pub enum Idx { Field(String), Pos(int) }

pub open spec fn iv(i: Index) -> Idx {
    match i { Index::Map(s) => Idx::Field(s), Index::Vec(n) => Idx::Pos(n as int) }
}

pub open spec fn t_index(v: Val, i: Idx) -> Res {
    match (v, i) {
        (Val::Map(m), Idx::Field(k)) => Res::Ok(if m.dom().contains(k) { m[k] } else { Val::None }),
        (Val::List(l), Idx::Pos(n)) => Res::Ok(if 0 <= n < l.len() { l[n] } else { Val::None }),
        (Val::None, _) => Res::Ok(Val::None),
        _ => Res::Err(ErrK::InvalidType),
    }
}

// ---- shorthands used by the C01 / C03 / C04 clauses (transcribed from the statements, independent of the tables)
pub open spec fn r_none() -> Res { Res::Ok(Val::None) }
pub open spec fn r_false() -> Res { Res::Ok(Val::Bool(false)) }
pub open spec fn r_itype() -> Res { Res::Err(ErrK::InvalidType) }
pub open spec fn any_none(a: Val, b: Val) -> bool { a is None || b is None }
pub open spec fn mixnum(a: Val, b: Val) -> bool { is_num(a) && is_num(b) && tag(a) != tag(b) }
pub open spec fn same_tag_or_none(r: Res, a: Val) -> bool { r is Ok ==> (r->Ok_0 is None || tag(r->Ok_0) == tag(a)) }
pub open spec fn both(a: Val, b: Val, ta: int, tb: int) -> bool { tag(a) == ta && tag(b) == tb }
// tags: 0 Str, 1 Int, 2 Float, 3 Dec, 4 Bool, 5 Dt, 6 Dur, 7 List, 8 Map, 9 None
pub open spec fn arith_supported(a: Val, b: Val) -> bool { both(a, b, 1, 1) || both(a, b, 2, 2) || both(a, b, 3, 3) }
pub open spec fn order_supported(a: Val, b: Val) -> bool { both(a, b, 1, 1) || both(a, b, 2, 2) || both(a, b, 3, 3) || both(a, b, 5, 5) || both(a, b, 6, 6) }
pub open spec fn bit_supported(a: Val, b: Val) -> bool { both(a, b, 1, 1) || both(a, b, 4, 4) }

/// the error `TryFrom<Value>` reports for the wrong kind: carries the offending value and the expected type's name (C17)
pub open spec fn unexpected_type_err(v: Value, expect: Seq<char>) -> Error { Error::UnexpectedValueType(v, string_of(expect)) }

/// C17, lists: "the element x converts" for a target type V (used under a quantifier: a named spec fn gives a usable trigger)
pub open spec fn conv_can_ok<V: TryFrom<Value, Error = Error>>(x: Value) -> bool {
    exists|u: V| call_ensures(<V as TryFrom<Value>>::try_from, (x,), Ok::<V, Error>(u))
}

/// C17, maps built from Rust maps: the entry (k2, v2) of the result comes from an entry of the source converted by K::into / V::into
pub open spec fn conv_entry_src<K: Into<String>, V: Into<Value>>(m: Map<K, V>, k2: String, v2: Value) -> bool {
    exists|k: K| m.dom().contains(k) && call_ensures(<K as Into<String>>::into, (k,), k2) && call_ensures(<V as Into<Value>>::into, (m[k],), v2)
}
/// ... and every source entry's converted key is present in the result
pub open spec fn conv_entry_dst<K: Into<String>>(k: K, out: Map<String, Value>) -> bool {
    exists|k2: String| call_ensures(<K as Into<String>>::into, (k,), k2) && out.dom().contains(k2)
}
