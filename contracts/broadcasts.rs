// module-level hints for the extracted code (trusted axioms declared in std_specs.rs)
broadcast use {axiom_string_of, axiom_bool_bitand, axiom_bool_bitor, axiom_pattern_string, group_f64, axiom_f64_obeys, vstd::std_specs::btree::group_btree_axioms, axiom_string_key_model};
