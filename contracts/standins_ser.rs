// Stand-ins for the serde data-model traits as `src/value/ser.rs` implements them (unit `ser`, C13).
// serde is a foreign crate: the trait *declarations* below are transcribed from serde 1.x's `ser` module (method names, receivers,
// parameters, associated types); they are ASSUMED to be the traits the real impls are written against -- rustc checks the extracted
// impl blocks against them, so a signature that does not match serde's would not compile here either.
// Left out (stated in DESIGN.md 4/C13): `serialize_f32` (exec `f32 as f64` has no Verus spec; Kani harness scalar_f32),
// `serialize_bytes` (`iter().map().collect()`), `collect_str`/`is_human_readable` (provided methods the crate does not override).

/// What a value's own `Serialize` impl produces when it is driven by `ValueSerializer` (`ser_spec`) resp. by `StringSerializer`
/// (`ser_key_spec`).  ASSUMED: serializing is a deterministic function of the value.  The two real serializers are told apart by
/// the helper trait `SerTarget` (a trait that mentions `Serializer` here would make the two trait declarations cyclic for Verus).
pub trait Serialize {
    spec fn ser_spec(&self) -> Result<Value>;
    spec fn ser_key_spec(&self) -> Result<String>;
    fn serialize<S: SerTarget>(&self, serializer: S) -> (r: core::result::Result<<S as SerTarget>::Ok, <S as SerTarget>::Error>)
        ensures r == S::pick(self.ser_spec(), self.ser_key_spec());
}
pub trait SerTarget: Sized {
    type Ok;
    type Error;
    spec fn pick(a: Result<Value>, b: Result<String>) -> core::result::Result<Self::Ok, Self::Error>;
}
impl SerTarget for ValueSerializer {
    type Ok = Value;
    type Error = Error;
    open spec fn pick(a: Result<Value>, b: Result<String>) -> Result<Value> { a }
}
impl SerTarget for StringSerializer {
    type Ok = String;
    type Error = Error;
    open spec fn pick(a: Result<Value>, b: Result<String>) -> Result<String> { b }
}

pub trait SerError: Sized {
    fn custom<T: Display>(msg: T) -> Self;
}

pub trait Serializer: Sized {
    type Ok;
    type Error;
    type SerializeSeq: SerializeSeq<Ok = Self::Ok, Error = Self::Error>;
    type SerializeTuple: SerializeTuple<Ok = Self::Ok, Error = Self::Error>;
    type SerializeTupleStruct: SerializeTupleStruct<Ok = Self::Ok, Error = Self::Error>;
    type SerializeTupleVariant: SerializeTupleVariant<Ok = Self::Ok, Error = Self::Error>;
    type SerializeMap: SerializeMap<Ok = Self::Ok, Error = Self::Error>;
    type SerializeStruct: SerializeStruct<Ok = Self::Ok, Error = Self::Error>;
    type SerializeStructVariant: SerializeStructVariant<Ok = Self::Ok, Error = Self::Error>;

    fn serialize_bool(self, v: bool) -> core::result::Result<Self::Ok, Self::Error>;
    fn serialize_i8(self, v: i8) -> core::result::Result<Self::Ok, Self::Error>;
    fn serialize_i16(self, v: i16) -> core::result::Result<Self::Ok, Self::Error>;
    fn serialize_i32(self, v: i32) -> core::result::Result<Self::Ok, Self::Error>;
    fn serialize_i64(self, v: i64) -> core::result::Result<Self::Ok, Self::Error>;
    /// serde: provided method (default: an error) -- `StringSerializer` does not override it
    #[verifier::external_body]
    fn serialize_i128(self, v: i128) -> core::result::Result<Self::Ok, Self::Error> { unimplemented!() }
    fn serialize_u8(self, v: u8) -> core::result::Result<Self::Ok, Self::Error>;
    fn serialize_u16(self, v: u16) -> core::result::Result<Self::Ok, Self::Error>;
    fn serialize_u32(self, v: u32) -> core::result::Result<Self::Ok, Self::Error>;
    fn serialize_u64(self, v: u64) -> core::result::Result<Self::Ok, Self::Error>;
    /// serde: provided method (default: an error) -- `StringSerializer` does not override it
    #[verifier::external_body]
    fn serialize_u128(self, v: u128) -> core::result::Result<Self::Ok, Self::Error> { unimplemented!() }
    fn serialize_f64(self, v: f64) -> core::result::Result<Self::Ok, Self::Error>;
    fn serialize_char(self, v: char) -> core::result::Result<Self::Ok, Self::Error>;
    fn serialize_str(self, v: &str) -> core::result::Result<Self::Ok, Self::Error>;
    fn serialize_none(self) -> core::result::Result<Self::Ok, Self::Error>;
    fn serialize_some<T: Serialize + ?Sized>(self, value: &T) -> core::result::Result<Self::Ok, Self::Error>;
    fn serialize_unit(self) -> core::result::Result<Self::Ok, Self::Error>;
    fn serialize_unit_struct(self, name: &'static str) -> core::result::Result<Self::Ok, Self::Error>;
    fn serialize_unit_variant(self, name: &'static str, variant_index: u32, variant: &'static str) -> core::result::Result<Self::Ok, Self::Error>;
    fn serialize_newtype_struct<T: Serialize + ?Sized>(self, name: &'static str, value: &T) -> core::result::Result<Self::Ok, Self::Error>;
    fn serialize_newtype_variant<T: Serialize + ?Sized>(self, name: &'static str, variant_index: u32, variant: &'static str, value: &T) -> core::result::Result<Self::Ok, Self::Error>;
    fn serialize_seq(self, len: Option<usize>) -> core::result::Result<Self::SerializeSeq, Self::Error>;
    fn serialize_tuple(self, len: usize) -> core::result::Result<Self::SerializeTuple, Self::Error>;
    fn serialize_tuple_struct(self, name: &'static str, len: usize) -> core::result::Result<Self::SerializeTupleStruct, Self::Error>;
    fn serialize_tuple_variant(self, name: &'static str, variant_index: u32, variant: &'static str, len: usize) -> core::result::Result<Self::SerializeTupleVariant, Self::Error>;
    fn serialize_map(self, len: Option<usize>) -> core::result::Result<Self::SerializeMap, Self::Error>;
    fn serialize_struct(self, name: &'static str, len: usize) -> core::result::Result<Self::SerializeStruct, Self::Error>;
    fn serialize_struct_variant(self, name: &'static str, variant_index: u32, variant: &'static str, len: usize) -> core::result::Result<Self::SerializeStructVariant, Self::Error>;
}

// The collector traits.  Several of them are implemented by ONE type with methods of the same name (`SerializeSeq::end` and
// `SerializeTuple::end` for `SerializeVecValue`), and Verus cannot attach an `ensures` to such an impl method ("multiple applicable
// items in scope").  So each trait method's postcondition is a spec predicate of the trait (`*_post`), which every impl defines;
// the real method bodies are checked against the trait-level `ensures Self::*_post(..)`.
pub trait SerializeSeq: Sized {
    type Ok;
    type Error;
    spec fn element_post<T: ?Sized + Serialize>(pre: Self, post: Self, value: &T, r: core::result::Result<(), Self::Error>) -> bool;
    spec fn end_post(pre: Self, r: core::result::Result<Self::Ok, Self::Error>) -> bool;
    fn serialize_element<T: ?Sized + Serialize>(&mut self, value: &T) -> (r: core::result::Result<(), Self::Error>)
        ensures Self::element_post(*old(self), *final(self), value, r);
    fn end(self) -> (r: core::result::Result<Self::Ok, Self::Error>)
        ensures Self::end_post(self, r);
}
pub trait SerializeTuple: Sized {
    type Ok;
    type Error;
    spec fn element_post<T: ?Sized + Serialize>(pre: Self, post: Self, value: &T, r: core::result::Result<(), Self::Error>) -> bool;
    spec fn end_post(pre: Self, r: core::result::Result<Self::Ok, Self::Error>) -> bool;
    fn serialize_element<T: ?Sized + Serialize>(&mut self, value: &T) -> (r: core::result::Result<(), Self::Error>)
        ensures Self::element_post(*old(self), *final(self), value, r);
    fn end(self) -> (r: core::result::Result<Self::Ok, Self::Error>)
        ensures Self::end_post(self, r);
}
pub trait SerializeTupleStruct: Sized {
    type Ok;
    type Error;
    spec fn field_post<T: ?Sized + Serialize>(pre: Self, post: Self, value: &T, r: core::result::Result<(), Self::Error>) -> bool;
    spec fn end_post(pre: Self, r: core::result::Result<Self::Ok, Self::Error>) -> bool;
    fn serialize_field<T: ?Sized + Serialize>(&mut self, value: &T) -> (r: core::result::Result<(), Self::Error>)
        ensures Self::field_post(*old(self), *final(self), value, r);
    fn end(self) -> (r: core::result::Result<Self::Ok, Self::Error>)
        ensures Self::end_post(self, r);
}
pub trait SerializeTupleVariant: Sized {
    type Ok;
    type Error;
    spec fn field_post<T: ?Sized + Serialize>(pre: Self, post: Self, value: &T, r: core::result::Result<(), Self::Error>) -> bool;
    spec fn end_post(pre: Self, r: core::result::Result<Self::Ok, Self::Error>) -> bool;
    fn serialize_field<T: ?Sized + Serialize>(&mut self, value: &T) -> (r: core::result::Result<(), Self::Error>)
        ensures Self::field_post(*old(self), *final(self), value, r);
    fn end(self) -> (r: core::result::Result<Self::Ok, Self::Error>)
        ensures Self::end_post(self, r);
}
/// `serialize_value` has the protocol precondition serde documents ("serialize_key must have been called"): the real impl panics
/// otherwise (`expect`).  It is a `requires` of the trait method, phrased through `key_pending`, which each impl defines.
pub trait SerializeMap: Sized {
    type Ok;
    type Error;
    spec fn key_pending(&self) -> bool;
    spec fn key_post<T: ?Sized + Serialize>(pre: Self, post: Self, key: &T, r: core::result::Result<(), Self::Error>) -> bool;
    spec fn value_post<T: ?Sized + Serialize>(pre: Self, post: Self, value: &T, r: core::result::Result<(), Self::Error>) -> bool;
    spec fn entry_post<K: ?Sized + Serialize, V: ?Sized + Serialize>(pre: Self, post: Self, key: &K, value: &V, r: core::result::Result<(), Self::Error>) -> bool;
    spec fn end_post(pre: Self, r: core::result::Result<Self::Ok, Self::Error>) -> bool;
    fn serialize_key<T: ?Sized + Serialize>(&mut self, key: &T) -> (r: core::result::Result<(), Self::Error>)
        ensures Self::key_post(*old(self), *final(self), key, r);
    fn serialize_value<T: ?Sized + Serialize>(&mut self, value: &T) -> (r: core::result::Result<(), Self::Error>)
        requires old(self).key_pending(),
        ensures Self::value_post(*old(self), *final(self), value, r);
    /// serde: provided method, `self.serialize_key(key)?; self.serialize_value(value)` (transcribed; see the impl)
    fn serialize_entry<K: ?Sized + Serialize, V: ?Sized + Serialize>(&mut self, key: &K, value: &V) -> (r: core::result::Result<(), Self::Error>)
        ensures Self::entry_post(*old(self), *final(self), key, value, r);
    fn end(self) -> (r: core::result::Result<Self::Ok, Self::Error>)
        ensures Self::end_post(self, r);
}
pub trait SerializeStruct: Sized {
    type Ok;
    type Error;
    spec fn field_post<T: ?Sized + Serialize>(pre: Self, post: Self, key: &'static str, value: &T, r: core::result::Result<(), Self::Error>) -> bool;
    spec fn end_post(pre: Self, r: core::result::Result<Self::Ok, Self::Error>) -> bool;
    fn serialize_field<T: ?Sized + Serialize>(&mut self, key: &'static str, value: &T) -> (r: core::result::Result<(), Self::Error>)
        ensures Self::field_post(*old(self), *final(self), key, value, r);
    fn end(self) -> (r: core::result::Result<Self::Ok, Self::Error>)
        ensures Self::end_post(self, r);
}
pub trait SerializeStructVariant: Sized {
    type Ok;
    type Error;
    spec fn field_post<T: ?Sized + Serialize>(pre: Self, post: Self, key: &'static str, value: &T, r: core::result::Result<(), Self::Error>) -> bool;
    spec fn end_post(pre: Self, r: core::result::Result<Self::Ok, Self::Error>) -> bool;
    fn serialize_field<T: ?Sized + Serialize>(&mut self, key: &'static str, value: &T) -> (r: core::result::Result<(), Self::Error>)
        ensures Self::field_post(*old(self), *final(self), key, value, r);
    fn end(self) -> (r: core::result::Result<Self::Ok, Self::Error>)
        ensures Self::end_post(self, r);
}

/// serde::ser::Impossible: an uninhabited helper type used for the collector types `StringSerializer` never produces
#[verifier::external_body]
#[verifier::reject_recursive_types(Ok)]
#[verifier::reject_recursive_types(Error)]
pub struct Impossible<Ok, Error> { _p: core::marker::PhantomData<(Ok, Error)> }
impl<O, E> SerializeSeq for Impossible<O, E> { type Ok = O; type Error = E;
    open spec fn element_post<T: ?Sized + Serialize>(pre: Self, post: Self, value: &T, r: core::result::Result<(), E>) -> bool { true }
    open spec fn end_post(pre: Self, r: core::result::Result<O, E>) -> bool { true }
    #[verifier::external_body] fn serialize_element<T: ?Sized + Serialize>(&mut self, value: &T) -> core::result::Result<(), E> { unimplemented!() }
    #[verifier::external_body] fn end(self) -> core::result::Result<O, E> { unimplemented!() } }
impl<O, E> SerializeTuple for Impossible<O, E> { type Ok = O; type Error = E;
    open spec fn element_post<T: ?Sized + Serialize>(pre: Self, post: Self, value: &T, r: core::result::Result<(), E>) -> bool { true }
    open spec fn end_post(pre: Self, r: core::result::Result<O, E>) -> bool { true }
    #[verifier::external_body] fn serialize_element<T: ?Sized + Serialize>(&mut self, value: &T) -> core::result::Result<(), E> { unimplemented!() }
    #[verifier::external_body] fn end(self) -> core::result::Result<O, E> { unimplemented!() } }
impl<O, E> SerializeTupleStruct for Impossible<O, E> { type Ok = O; type Error = E;
    open spec fn field_post<T: ?Sized + Serialize>(pre: Self, post: Self, value: &T, r: core::result::Result<(), E>) -> bool { true }
    open spec fn end_post(pre: Self, r: core::result::Result<O, E>) -> bool { true }
    #[verifier::external_body] fn serialize_field<T: ?Sized + Serialize>(&mut self, value: &T) -> core::result::Result<(), E> { unimplemented!() }
    #[verifier::external_body] fn end(self) -> core::result::Result<O, E> { unimplemented!() } }
impl<O, E> SerializeTupleVariant for Impossible<O, E> { type Ok = O; type Error = E;
    open spec fn field_post<T: ?Sized + Serialize>(pre: Self, post: Self, value: &T, r: core::result::Result<(), E>) -> bool { true }
    open spec fn end_post(pre: Self, r: core::result::Result<O, E>) -> bool { true }
    #[verifier::external_body] fn serialize_field<T: ?Sized + Serialize>(&mut self, value: &T) -> core::result::Result<(), E> { unimplemented!() }
    #[verifier::external_body] fn end(self) -> core::result::Result<O, E> { unimplemented!() } }
impl<O, E> SerializeMap for Impossible<O, E> { type Ok = O; type Error = E;
    open spec fn key_pending(&self) -> bool { true }
    open spec fn key_post<T: ?Sized + Serialize>(pre: Self, post: Self, key: &T, r: core::result::Result<(), E>) -> bool { true }
    open spec fn value_post<T: ?Sized + Serialize>(pre: Self, post: Self, value: &T, r: core::result::Result<(), E>) -> bool { true }
    open spec fn entry_post<K: ?Sized + Serialize, V: ?Sized + Serialize>(pre: Self, post: Self, key: &K, value: &V, r: core::result::Result<(), E>) -> bool { true }
    open spec fn end_post(pre: Self, r: core::result::Result<O, E>) -> bool { true }
    #[verifier::external_body] fn serialize_key<T: ?Sized + Serialize>(&mut self, key: &T) -> core::result::Result<(), E> { unimplemented!() }
    #[verifier::external_body] fn serialize_value<T: ?Sized + Serialize>(&mut self, value: &T) -> core::result::Result<(), E> { unimplemented!() }
    #[verifier::external_body] fn serialize_entry<K: ?Sized + Serialize, V: ?Sized + Serialize>(&mut self, key: &K, value: &V) -> core::result::Result<(), E> { unimplemented!() }
    #[verifier::external_body] fn end(self) -> core::result::Result<O, E> { unimplemented!() } }
impl<O, E> SerializeStruct for Impossible<O, E> { type Ok = O; type Error = E;
    open spec fn field_post<T: ?Sized + Serialize>(pre: Self, post: Self, key: &'static str, value: &T, r: core::result::Result<(), E>) -> bool { true }
    open spec fn end_post(pre: Self, r: core::result::Result<O, E>) -> bool { true }
    #[verifier::external_body] fn serialize_field<T: ?Sized + Serialize>(&mut self, key: &'static str, value: &T) -> core::result::Result<(), E> { unimplemented!() }
    #[verifier::external_body] fn end(self) -> core::result::Result<O, E> { unimplemented!() } }
impl<O, E> SerializeStructVariant for Impossible<O, E> { type Ok = O; type Error = E;
    open spec fn field_post<T: ?Sized + Serialize>(pre: Self, post: Self, key: &'static str, value: &T, r: core::result::Result<(), E>) -> bool { true }
    open spec fn end_post(pre: Self, r: core::result::Result<O, E>) -> bool { true }
    #[verifier::external_body] fn serialize_field<T: ?Sized + Serialize>(&mut self, key: &'static str, value: &T) -> core::result::Result<(), E> { unimplemented!() }
    #[verifier::external_body] fn end(self) -> core::result::Result<O, E> { unimplemented!() } }

/// serde's own `impl Serialize for str / String`: `serializer.serialize_str(self)`.  With the two real serializers that is
/// `Ok(Value::String(s))` resp. `Ok(s)` (their `serialize_str` contracts, proved below); stated here as the images of a `String`.
impl Serialize for String {
    open spec fn ser_spec(&self) -> Result<Value> { Ok(Value::String(*self)) }
    open spec fn ser_key_spec(&self) -> Result<String> { Ok(*self) }
    #[verifier::external_body]
    fn serialize<S: SerTarget>(&self, serializer: S) -> (r: core::result::Result<<S as SerTarget>::Ok, <S as SerTarget>::Error>) { unimplemented!() }
}
