// module-level hints for the extracted code of unit `ser` (trusted axioms declared in std_specs.rs)
broadcast use {axiom_string_of, axiom_bool_bitand, axiom_bool_bitor, axiom_pattern_string, group_f64, axiom_f64_obeys, vstd::std_specs::btree::group_btree_axioms, axiom_string_key_model,
    axiom_string_to_string, axiom_str_to_string, axiom_char_to_string, axiom_into_reflexive_string, axiom_str_into_string, axiom_string_from_str_obeys, axiom_string_from_str, axiom_i128_try_from_u128_obeys, axiom_i128_try_from_u128};
