// ghost definitions used only by unit U3 (ruleset / registry / builder)
// ---- C15: registry invariant: every function is stored under its own name ----------------------------------
pub open spec fn fns_wf(fm: Map<&'static str, BoxedFunction>) -> bool {
    forall|k: &'static str| #[trigger] fm.dom().contains(k) ==> fm[k].spec_name() == k
}

pub open spec fn reserved_spec(s: Seq<char>) -> bool { exists|j: int| 0 <= j < KEYWORDS@.len() && (#[trigger] KEYWORDS@[j])@ == s }

// ---- C15: builder state ---------------------------------------------------------------------------------------
pub open spec fn rule_name_taken(rules: Seq<Rule>, name: Seq<char>) -> bool { exists|j: int| 0 <= j < rules.len() && (#[trigger] rules[j]).name@ == name }
pub open spec fn rules_distinct(rules: Seq<Rule>) -> bool { forall|i: int, j: int| 0 <= i < j < rules.len() ==> (#[trigger] rules[i]).name@ != (#[trigger] rules[j]).name@ }

// ---- C15: batch forms (with_rules / with_functions): the batch is the fold of the single-item operation, stopping at the first refusal
pub open spec fn add_rules_spec(rules: Seq<Rule>, new: Seq<Rule>, i: nat) -> core::result::Result<Seq<Rule>, Seq<char>>
    decreases new.len() - i,
{
    if i >= new.len() { Ok(rules) }
    else if rule_name_taken(rules, new[i as int].name@) { Err(new[i as int].name@) }
    else { add_rules_spec(rules.push(new[i as int]), new, i + 1) }
}

pub open spec fn fn_accepted(fm: Map<&'static str, BoxedFunction>, f: BoxedFunction) -> bool {
    is_ident_spec(f.spec_name()@) && !reserved_spec(f.spec_name()@) && !fm.dom().contains(f.spec_name())
}

/// Ok(registry after the whole batch) or Err(index of the first refused function)
pub open spec fn add_fns_spec(fm: Map<&'static str, BoxedFunction>, new: Seq<BoxedFunction>, i: nat) -> core::result::Result<Map<&'static str, BoxedFunction>, int>
    decreases new.len() - i,
{
    if i >= new.len() { Ok(fm) }
    else if fn_accepted(fm, new[i as int]) { add_fns_spec(fm.insert(new[i as int].spec_name(), new[i as int]), new, i + 1) }
    else { Err(i as int) }
}

/// what the recursive batch spec means in closed form (the statement of C15): an accepted batch appends the rules in order,
/// keeps names distinct, and a refusal names a rule whose name was already present (before or earlier in the batch)
//@lemma with_rules.closed_form C15
pub proof fn lemma_add_rules_spec(rules: Seq<Rule>, new: Seq<Rule>, i: nat)
    requires i <= new.len(),
    ensures
        match add_rules_spec(rules, new, i) {
            Ok(rs) => rs == rules + new.subrange(i as int, new.len() as int) && (rules_distinct(rules) ==> rules_distinct(rs)),
            Err(n) => exists|j: int| i <= j < new.len() && new[j].name@ == n && rule_name_taken(rules + new.subrange(i as int, j), n),
        },
    decreases new.len() - i,
{
    if i >= new.len() {
        assert(new.subrange(i as int, new.len() as int) =~= Seq::<Rule>::empty());
        assert(rules + Seq::<Rule>::empty() =~= rules);
    } else if rule_name_taken(rules, new[i as int].name@) {
        assert(new.subrange(i as int, i as int) =~= Seq::<Rule>::empty());
        assert(rules + Seq::<Rule>::empty() =~= rules);
    } else {
        let r2 = rules.push(new[i as int]);
        lemma_add_rules_spec(r2, new, i + 1);
        assert(rules_distinct(rules) ==> rules_distinct(r2)) by {
            if rules_distinct(rules) {
                assert forall|a: int, b: int| 0 <= a < b < r2.len() implies (#[trigger] r2[a]).name@ != (#[trigger] r2[b]).name@ by {
                    if b == rules.len() { assert(r2[a] == rules[a]); }
                }
            }
        }
        match add_rules_spec(r2, new, i + 1) {
            Ok(rs) => {
                assert(r2 + new.subrange(i as int + 1, new.len() as int) =~= rules + new.subrange(i as int, new.len() as int));
            }
            Err(n) => {
                let j = choose|j: int| i + 1 <= j < new.len() && new[j].name@ == n && rule_name_taken(r2 + new.subrange(i as int + 1, j), n);
                assert(r2 + new.subrange(i as int + 1, j) =~= rules + new.subrange(i as int, j));
            }
        }
    }
}
