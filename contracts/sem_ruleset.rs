// ghost definitions used only by unit U3 (ruleset / registry / builder)
// ---- C15: registry invariant: every function is stored under its own name ----------------------------------
pub open spec fn fns_wf(fm: Map<&'static str, BoxedFunction>) -> bool {
    forall|k: &'static str| #[trigger] fm.dom().contains(k) ==> fm[k].spec_name() == k
}

pub open spec fn reserved_spec(s: Seq<char>) -> bool { exists|j: int| 0 <= j < KEYWORDS@.len() && (#[trigger] KEYWORDS@[j])@ == s }

// ---- C15: builder state ---------------------------------------------------------------------------------------
pub open spec fn rule_name_taken(rules: Seq<Rule>, name: Seq<char>) -> bool { exists|j: int| 0 <= j < rules.len() && (#[trigger] rules[j]).name@ == name }
pub open spec fn rules_distinct(rules: Seq<Rule>) -> bool { forall|i: int, j: int| 0 <= i < j < rules.len() ==> (#[trigger] rules[i]).name@ != (#[trigger] rules[j]).name@ }
