// Round-trip lemmas (C17): converting a Rust value into a Value and back returns the original.
// Each is a two-line consequence of the two contracts (from_spec / try_from_spec, or the impl's own ensures).

//@lemma roundtrip.i128 C17
pub proof fn lemma_roundtrip_i128(x: i128)
    ensures <i128 as vstd::std_specs::convert::TryFromSpec<Value>>::try_from_spec(<Value as vstd::std_specs::convert::FromSpec<i128>>::from_spec(x)) == Ok::<i128, Error>(x),
{
}

//@lemma roundtrip.f64 C17
pub proof fn lemma_roundtrip_f64(x: f64)
    ensures <f64 as vstd::std_specs::convert::TryFromSpec<Value>>::try_from_spec(<Value as vstd::std_specs::convert::FromSpec<f64>>::from_spec(x)) == Ok::<f64, Error>(x),
{
}

//@lemma roundtrip.bool C17
pub proof fn lemma_roundtrip_bool(x: bool)
    ensures <bool as vstd::std_specs::convert::TryFromSpec<Value>>::try_from_spec(<Value as vstd::std_specs::convert::FromSpec<bool>>::from_spec(x)) == Ok::<bool, Error>(x),
{
}

//@lemma roundtrip.decimal C17
pub proof fn lemma_roundtrip_decimal(x: Decimal)
    ensures <Decimal as vstd::std_specs::convert::TryFromSpec<Value>>::try_from_spec(<Value as vstd::std_specs::convert::FromSpec<Decimal>>::from_spec(x)) == Ok::<Decimal, Error>(x),
{
}

//@lemma roundtrip.datetime_utc C17
pub proof fn lemma_roundtrip_datetime_utc(x: DateTime<Utc>)
    ensures <DateTime<Utc> as vstd::std_specs::convert::TryFromSpec<Value>>::try_from_spec(<Value as vstd::std_specs::convert::FromSpec<DateTime<Utc>>>::from_spec(x)) == Ok::<DateTime<Utc>, Error>(x),
{
}

//@lemma roundtrip.timedelta C17
pub proof fn lemma_roundtrip_timedelta(x: TimeDelta)
    ensures <TimeDelta as vstd::std_specs::convert::TryFromSpec<Value>>::try_from_spec(<Value as vstd::std_specs::convert::FromSpec<TimeDelta>>::from_spec(x)) == Ok::<TimeDelta, Error>(x),
{
}

//@lemma roundtrip.string C17
pub proof fn lemma_roundtrip_string(x: String)
    ensures <String as vstd::std_specs::convert::TryFromSpec<Value>>::try_from_spec(<Value as vstd::std_specs::convert::FromSpec<String>>::from_spec(x)) == Ok::<String, Error>(x),
{
}

//@lemma roundtrip.i64 C17
pub proof fn lemma_roundtrip_i64(x: i64, r: core::result::Result<i64, Error>)
    requires call_ensures(<i64 as TryFrom<Value>>::try_from, (<Value as vstd::std_specs::convert::FromSpec<i64>>::from_spec(x),), r),
    ensures r == Ok::<i64, Error>(x),
{
}

//@lemma roundtrip.i32 C17
pub proof fn lemma_roundtrip_i32(x: i32, r: core::result::Result<i32, Error>)
    requires call_ensures(<i32 as TryFrom<Value>>::try_from, (<Value as vstd::std_specs::convert::FromSpec<i32>>::from_spec(x),), r),
    ensures r == Ok::<i32, Error>(x),
{
}

//@lemma roundtrip.i16 C17
pub proof fn lemma_roundtrip_i16(x: i16, r: core::result::Result<i16, Error>)
    requires call_ensures(<i16 as TryFrom<Value>>::try_from, (<Value as vstd::std_specs::convert::FromSpec<i16>>::from_spec(x),), r),
    ensures r == Ok::<i16, Error>(x),
{
}

//@lemma roundtrip.i8 C17
pub proof fn lemma_roundtrip_i8(x: i8, r: core::result::Result<i8, Error>)
    requires call_ensures(<i8 as TryFrom<Value>>::try_from, (<Value as vstd::std_specs::convert::FromSpec<i8>>::from_spec(x),), r),
    ensures r == Ok::<i8, Error>(x),
{
}

//@lemma roundtrip.u64 C17
pub proof fn lemma_roundtrip_u64(x: u64, r: core::result::Result<u64, Error>)
    requires call_ensures(<u64 as TryFrom<Value>>::try_from, (<Value as vstd::std_specs::convert::FromSpec<u64>>::from_spec(x),), r),
    ensures r == Ok::<u64, Error>(x),
{
}

//@lemma roundtrip.u32 C17
pub proof fn lemma_roundtrip_u32(x: u32, r: core::result::Result<u32, Error>)
    requires call_ensures(<u32 as TryFrom<Value>>::try_from, (<Value as vstd::std_specs::convert::FromSpec<u32>>::from_spec(x),), r),
    ensures r == Ok::<u32, Error>(x),
{
}

//@lemma roundtrip.u16 C17
pub proof fn lemma_roundtrip_u16(x: u16, r: core::result::Result<u16, Error>)
    requires call_ensures(<u16 as TryFrom<Value>>::try_from, (<Value as vstd::std_specs::convert::FromSpec<u16>>::from_spec(x),), r),
    ensures r == Ok::<u16, Error>(x),
{
}

//@lemma roundtrip.u8 C17
pub proof fn lemma_roundtrip_u8(x: u8, r: core::result::Result<u8, Error>)
    requires call_ensures(<u8 as TryFrom<Value>>::try_from, (<Value as vstd::std_specs::convert::FromSpec<u8>>::from_spec(x),), r),
    ensures r == Ok::<u8, Error>(x),
{
}

// ---- lists: the two generic contracts composed at concrete element types (lemmas in exec form: the element conversions are
// reached through `call_ensures`, which only exists for exec calls).  Not code of the crate; the same obligations a caller has.
//@lemma roundtrip.vec_i64 C17
pub fn roundtrip_vec_i64(v: Vec<i64>) -> (r: core::result::Result<Vec<i64>, Error>)
    ensures r is Ok && r->Ok_0@ == v@,
{
    let val = Value::from(v);
    let r = Vec::<i64>::try_from(val);
    proof { if r is Ok { assert(r->Ok_0@ =~= v@); } }
    r
}

//@lemma roundtrip.vec_u8 C17
pub fn roundtrip_vec_u8(v: Vec<u8>) -> (r: core::result::Result<Vec<u8>, Error>)
    ensures r is Ok && r->Ok_0@ == v@,
{
    let val = Value::from(v);
    let r = Vec::<u8>::try_from(val);
    proof { if r is Ok { assert(r->Ok_0@ =~= v@); } }
    r
}

//@lemma roundtrip.vec_bool C17
pub fn roundtrip_vec_bool(v: Vec<bool>) -> (r: core::result::Result<Vec<bool>, Error>)
    ensures r is Ok && r->Ok_0@ == v@,
{
    let val = Value::from(v);
    let r = Vec::<bool>::try_from(val);
    proof { if r is Ok { assert(r->Ok_0@ =~= v@); } }
    r
}

//@lemma roundtrip.vec_string C17
pub fn roundtrip_vec_string(v: Vec<String>) -> (r: core::result::Result<Vec<String>, Error>)
    ensures r is Ok && r->Ok_0@ == v@,
{
    let val = Value::from(v);
    let r = Vec::<String>::try_from(val);
    proof { if r is Ok { assert(r->Ok_0@ =~= v@); } }
    r
}

/// "extracting a list succeeds exactly when every element converts": a non-convertible element at any position refuses the list ...
//@lemma try_vec.rejects_at C17
pub fn vec_i64_rejects_at(list: Vec<Value>, p: usize) -> (r: core::result::Result<Vec<i64>, Error>)
    requires p < list@.len(), !(list@[p as int] is Int) || !(i64::MIN <= list@[p as int]->Int_0 <= i64::MAX),
    ensures r is Err,
{
    let ghost l = list@;
    let r = Vec::<i64>::try_from(Value::Vec(list));
    proof { if r is Ok { assert(call_ensures(<i64 as TryFrom<Value>>::try_from, (l[p as int],), Ok::<i64, Error>(r->Ok_0@[p as int]))); } }
    r
}

/// ... and a list of convertible elements is accepted, element for element
//@lemma try_vec.accepts_all C17
pub fn vec_i64_accepts_all(list: Vec<Value>) -> (r: core::result::Result<Vec<i64>, Error>)
    requires forall|i: int| 0 <= i < list@.len() ==> (#[trigger] list@[i]) is Int && i64::MIN <= list@[i]->Int_0 <= i64::MAX,
    ensures r is Ok && r->Ok_0@.len() == list@.len() && (forall|i: int| 0 <= i < list@.len() ==> (#[trigger] r->Ok_0@[i]) as i128 == list@[i]->Int_0),
{
    Vec::<i64>::try_from(Value::Vec(list))
}

// ---- maps ----
//@lemma roundtrip.btree_string_i64 C17
pub fn roundtrip_btree_string_i64(m: BTreeMap<String, i64>) -> (r: core::result::Result<BTreeMap<String, i64>, Error>)
    ensures r is Ok && r->Ok_0@ == m@,
{
    broadcast use axiom_into_reflexive_string;
    let ghost m0 = m@;
    let val = Value::from(m);
    let ghost vm = val->Map_0@;
    let r = BTreeMap::<String, i64>::try_from(val);
    proof {
        assert forall|k: String| m0.dom().contains(k) implies vm.dom().contains(k) by {
            assert(conv_entry_dst::<String>(k, vm));
        }
        assert forall|k2: String| vm.dom().contains(k2) implies m0.dom().contains(k2) && vm[k2] == Value::Int(m0[k2] as i128) by {
            assert(conv_entry_src::<String, i64>(m0, k2, vm[k2]));
        }
        if r is Ok {
            assert(r->Ok_0@.dom() =~= m0.dom());
            assert forall|k: String| m0.dom().contains(k) implies r->Ok_0@[k] == m0[k] by {
                assert(call_ensures(<i64 as TryFrom<Value>>::try_from, (vm[k],), Ok::<i64, Error>(r->Ok_0@[k])));
            }
            assert(r->Ok_0@ =~= m0);
        }
    }
    r
}

/// "extracting a map succeeds exactly when every element converts"
//@lemma try_btree.rejects_at C17
pub fn btree_i64_rejects_at(map: BTreeMap<String, Value>, Ghost(p): Ghost<String>) -> (r: core::result::Result<BTreeMap<String, i64>, Error>)
    requires map@.dom().contains(p), !(map@[p] is Int) || !(i64::MIN <= map@[p]->Int_0 <= i64::MAX),
    ensures r is Err,
{
    let ghost m0 = map@;
    let r = BTreeMap::<String, i64>::try_from(Value::Map(map));
    proof { if r is Ok { assert(call_ensures(<i64 as TryFrom<Value>>::try_from, (m0[p],), Ok::<i64, Error>(r->Ok_0@[p]))); } }
    r
}

//@lemma try_btree.accepts_all C17
pub fn btree_i64_accepts_all(map: BTreeMap<String, Value>) -> (r: core::result::Result<BTreeMap<String, i64>, Error>)
    requires forall|k: String| map@.dom().contains(k) ==> (#[trigger] map@[k]) is Int && i64::MIN <= map@[k]->Int_0 <= i64::MAX,
    ensures r is Ok && r->Ok_0@.dom() =~= map@.dom() && (forall|k: String| map@.dom().contains(k) ==> (#[trigger] r->Ok_0@[k]) as i128 == map@[k]->Int_0),
{
    BTreeMap::<String, i64>::try_from(Value::Map(map))
}
