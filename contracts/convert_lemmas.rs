// Round-trip lemmas (C17): converting a Rust value into a Value and back returns the original.
// Each is a two-line consequence of the two contracts (from_spec / try_from_spec, or the impl's own ensures).

//@lemma roundtrip.i128 C17
pub proof fn lemma_roundtrip_i128(x: i128)
    ensures <i128 as vstd::std_specs::convert::TryFromSpec<Value>>::try_from_spec(<Value as vstd::std_specs::convert::FromSpec<i128>>::from_spec(x)) == Ok::<i128, Error>(x),
{
}

//@lemma roundtrip.f64 C17
pub proof fn lemma_roundtrip_f64(x: f64)
    ensures <f64 as vstd::std_specs::convert::TryFromSpec<Value>>::try_from_spec(<Value as vstd::std_specs::convert::FromSpec<f64>>::from_spec(x)) == Ok::<f64, Error>(x),
{
}

//@lemma roundtrip.bool C17
pub proof fn lemma_roundtrip_bool(x: bool)
    ensures <bool as vstd::std_specs::convert::TryFromSpec<Value>>::try_from_spec(<Value as vstd::std_specs::convert::FromSpec<bool>>::from_spec(x)) == Ok::<bool, Error>(x),
{
}

//@lemma roundtrip.decimal C17
pub proof fn lemma_roundtrip_decimal(x: Decimal)
    ensures <Decimal as vstd::std_specs::convert::TryFromSpec<Value>>::try_from_spec(<Value as vstd::std_specs::convert::FromSpec<Decimal>>::from_spec(x)) == Ok::<Decimal, Error>(x),
{
}

//@lemma roundtrip.datetime_utc C17
pub proof fn lemma_roundtrip_datetime_utc(x: DateTime<Utc>)
    ensures <DateTime<Utc> as vstd::std_specs::convert::TryFromSpec<Value>>::try_from_spec(<Value as vstd::std_specs::convert::FromSpec<DateTime<Utc>>>::from_spec(x)) == Ok::<DateTime<Utc>, Error>(x),
{
}

//@lemma roundtrip.timedelta C17
pub proof fn lemma_roundtrip_timedelta(x: TimeDelta)
    ensures <TimeDelta as vstd::std_specs::convert::TryFromSpec<Value>>::try_from_spec(<Value as vstd::std_specs::convert::FromSpec<TimeDelta>>::from_spec(x)) == Ok::<TimeDelta, Error>(x),
{
}

//@lemma roundtrip.string C17
pub proof fn lemma_roundtrip_string(x: String)
    ensures <String as vstd::std_specs::convert::TryFromSpec<Value>>::try_from_spec(<Value as vstd::std_specs::convert::FromSpec<String>>::from_spec(x)) == Ok::<String, Error>(x),
{
}

//@lemma roundtrip.i64 C17
pub proof fn lemma_roundtrip_i64(x: i64, r: core::result::Result<i64, Error>)
    requires call_ensures(<i64 as TryFrom<Value>>::try_from, (<Value as vstd::std_specs::convert::FromSpec<i64>>::from_spec(x),), r),
    ensures r == Ok::<i64, Error>(x),
{
}

//@lemma roundtrip.i32 C17
pub proof fn lemma_roundtrip_i32(x: i32, r: core::result::Result<i32, Error>)
    requires call_ensures(<i32 as TryFrom<Value>>::try_from, (<Value as vstd::std_specs::convert::FromSpec<i32>>::from_spec(x),), r),
    ensures r == Ok::<i32, Error>(x),
{
}

//@lemma roundtrip.i16 C17
pub proof fn lemma_roundtrip_i16(x: i16, r: core::result::Result<i16, Error>)
    requires call_ensures(<i16 as TryFrom<Value>>::try_from, (<Value as vstd::std_specs::convert::FromSpec<i16>>::from_spec(x),), r),
    ensures r == Ok::<i16, Error>(x),
{
}

//@lemma roundtrip.i8 C17
pub proof fn lemma_roundtrip_i8(x: i8, r: core::result::Result<i8, Error>)
    requires call_ensures(<i8 as TryFrom<Value>>::try_from, (<Value as vstd::std_specs::convert::FromSpec<i8>>::from_spec(x),), r),
    ensures r == Ok::<i8, Error>(x),
{
}

//@lemma roundtrip.u64 C17
pub proof fn lemma_roundtrip_u64(x: u64, r: core::result::Result<u64, Error>)
    requires call_ensures(<u64 as TryFrom<Value>>::try_from, (<Value as vstd::std_specs::convert::FromSpec<u64>>::from_spec(x),), r),
    ensures r == Ok::<u64, Error>(x),
{
}

//@lemma roundtrip.u32 C17
pub proof fn lemma_roundtrip_u32(x: u32, r: core::result::Result<u32, Error>)
    requires call_ensures(<u32 as TryFrom<Value>>::try_from, (<Value as vstd::std_specs::convert::FromSpec<u32>>::from_spec(x),), r),
    ensures r == Ok::<u32, Error>(x),
{
}

//@lemma roundtrip.u16 C17
pub proof fn lemma_roundtrip_u16(x: u16, r: core::result::Result<u16, Error>)
    requires call_ensures(<u16 as TryFrom<Value>>::try_from, (<Value as vstd::std_specs::convert::FromSpec<u16>>::from_spec(x),), r),
    ensures r == Ok::<u16, Error>(x),
{
}

//@lemma roundtrip.u8 C17
pub proof fn lemma_roundtrip_u8(x: u8, r: core::result::Result<u8, Error>)
    requires call_ensures(<u8 as TryFrom<Value>>::try_from, (<Value as vstd::std_specs::convert::FromSpec<u8>>::from_spec(x),), r),
    ensures r == Ok::<u8, Error>(x),
{
}
