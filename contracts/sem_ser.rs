// ghost definitions used only by unit `ser` (C13)
/// serde's own `impl Serialize for str`: `serializer.serialize_str(self)` (see `impl Serialize for String` in standins_ser.rs)
impl Serialize for str {
    open spec fn ser_spec(&self) -> Result<Value> { Ok(Value::String(string_of(self@))) }
    open spec fn ser_key_spec(&self) -> Result<String> { Ok(string_of(self@)) }
    #[verifier::external_body]
    fn serialize<S: SerTarget>(&self, serializer: S) -> (r: core::result::Result<<S as SerTarget>::Ok, <S as SerTarget>::Error>) { unimplemented!() }
}
