#![allow(unused)]
#![feature(pattern)]
#![feature(allocator_api)]
#![allow(non_shorthand_field_patterns)]
use vstd::prelude::*;
use vstd::std_specs::ops::*;
use vstd::std_specs::cmp::*;
use std::collections::BTreeMap;
use core::str::FromStr;
use std::result;
use std::num::TryFromIntError;
use vstd::std_specs::iter::IteratorSpec;

verus! {

//@include standins.rs
//@include types.rs
//@include sem_val.rs
//@include std_specs.rs
//@include types2.rs
//@type src/value/ser.rs struct ValueSerializer
//@include standins_fn.rs
//@include sem_expr.rs

pub mod code {
use super::*;
//@include broadcasts_fn.rs

// ---- proved in unit eval_ops from the same contract text (imported as external_body) ----
//@import Error::invalid_cast
//@import Error::value_out_of_bounds
//@import <From<bool> for Value>::from
//@import index
//@import not
//@import neg
//@import some
//@import none
//@import int
//@import float
//@import dec
//@import datetime
//@import duration
//@import mult
//@import div
//@import rem
//@import add
//@import sub
//@import gt
//@import gte
//@import lt
//@import lte
//@import bitwise_and
//@import bitwise_or
//@import bitwise_xor
//@import contains
//@import uppercase
//@import lowercase
//@import trim
//@import floor
//@import round
//@import fract
//@import year
//@import month
//@import week
//@import day
//@import hour
//@import minute
//@import second

// ---- proved in unit ruleset from the same contract text ----
//@import RuleSet::call_function
//@import RuleSet::get_symbol

// ---- verified here ----
//@fn <TryFrom<Value> for bool>::try_from
//@fn Error::unexpected_val_type
//@fn EvalContext::new
//@fn EvalContext::call_function
//@fn EvalContext::reference
//@fn EvalContext::symbol
//@fn Expr::evaluate
//@fn Expr::eval_rule
//@fn Expr::eval_rec
//@fn iif
//@fn eq
//@fn and
//@fn or
//@fn eval_to_bool
//@fn eval_map
//@fn eval_vec

} // mod code

//@include sanity.rs

} // verus!
fn main() {}
