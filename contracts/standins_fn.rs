// =================================================================================================
// Boundary stand-ins for unit U2/U3: user functions (user code), ghost invocation log, assumed
// contracts of crate functions that are outside Verus' subset (iterator adapters).
// =================================================================================================

/// One real invocation of a user function (C05 / C11 observe exactly this sequence)
pub struct Call { pub name: Seq<char>, pub arg: Val }

/// Ghost invocation log, threaded as an erased `Tracked<&mut Log>` parameter (G1).  Only the boundary
/// contract of `BoxedFunction::call` appends to it.
pub tracked struct Log { pub ghost calls: Seq<Call> }

/// Stand-in for the alias `Box<dyn UserFunction + Send + Sync + 'static>` (user code).
/// ASSUMED: `name()` and `cacheable()` are pure and stable; `call` is one invocation whose result is a
/// function `uf` of (function, argument view, invocations so far) -- it may depend on history.
#[verifier::external_body]
pub struct BoxedFunction { _p: () }

pub uninterp spec fn uf(f: BoxedFunction, arg: Val, log: Seq<Call>) -> core::result::Result<Value, anyhow::Error>;

impl BoxedFunction {
    pub uninterp spec fn spec_name(&self) -> &'static str;
    pub uninterp spec fn spec_cacheable(&self) -> bool;

    #[verifier::external_body]
    pub fn name(&self) -> (r: &'static str) ensures r == self.spec_name() { unimplemented!() }
    #[verifier::external_body]
    pub fn cacheable(&self) -> (r: bool) ensures r == self.spec_cacheable() { unimplemented!() }
    #[verifier::external_body]
    pub async fn call(&self, params: Value, Tracked(log): Tracked<&mut Log>) -> (r: FunctionResult)
        ensures
            final(log).calls == old(log).calls.push(Call { name: self.spec_name()@, arg: vv(params) }),
            r == uf(*self, vv(params), old(log).calls),
    { unimplemented!() }
}

/// ascending key order of a finite map with String keys = the order in which `&BTreeMap` iterates (std guarantee)
pub uninterp spec fn key_order(dom: Set<String>) -> Seq<String>;
#[verifier::external_body]
pub broadcast proof fn axiom_key_order(dom: Set<String>)
    requires dom.finite(),
    ensures
        (#[trigger] key_order(dom)).no_duplicates(),
        key_order(dom).to_set() == dom,
        key_order(dom).len() == dom.len(),
{}

/// R4: `for (k, v) in map` with `map: &BTreeMap<String, V>` (`IntoIterator for &BTreeMap`, i.e. `map.iter()`) is routed through
/// this boundary function.  ASSUMED: it yields exactly the entries of the map, in key_order (std: ascending key order).
#[verifier::external_body]
pub fn btree_entries<'a, V>(m: &'a BTreeMap<String, V>) -> (r: Vec<(&'a String, &'a V)>)
    ensures
        r@.len() == key_order(m@.dom()).len(),
        forall|i: int| 0 <= i < r@.len() ==> *(#[trigger] r@[i]).0 == key_order(m@.dom())[i]
            && m@.dom().contains(key_order(m@.dom())[i]) && *r@[i].1 == m@[key_order(m@.dom())[i]],
{ m.iter().collect() }

// `impl<V: Into<Value>> From<Vec<V>> for Value` and `impl<K: Into<String>, V: Into<Value>> From<BTreeMap<K, V>> for Value`
// (src/value/convert.rs) are `into_iter().map(Into::into).collect()`: iterator adapters, outside Verus' subset.
// ASSUMED for the instantiations used by eval_vec / eval_map (V = Value, K = String): the identity rebuild.
impl vstd::std_specs::convert::FromSpecImpl<Vec<Value>> for Value {
    open spec fn obeys_from_spec() -> bool { true }
    open spec fn from_spec(v: Vec<Value>) -> Value { Value::Vec(v) }
}
impl From<Vec<Value>> for Value {
    #[verifier::external_body]
    fn from(vec: Vec<Value>) -> Value { unimplemented!() }
}
impl vstd::std_specs::convert::FromSpecImpl<BTreeMap<String, Value>> for Value {
    open spec fn obeys_from_spec() -> bool { true }
    open spec fn from_spec(v: BTreeMap<String, Value>) -> Value { Value::Map(v) }
}
impl From<BTreeMap<String, Value>> for Value {
    #[verifier::external_body]
    fn from(map: BTreeMap<String, Value>) -> Value { unimplemented!() }
}
