// =================================================================================================
// Boundary stand-ins for unit U2/U3: user functions (user code), ghost invocation log, assumed
// contracts of crate functions that are outside Verus' subset (iterator adapters).
// =================================================================================================

/// One real invocation of a user function (C05 / C11 observe exactly this sequence)
pub struct Call { pub name: Seq<char>, pub arg: Val }

/// Ghost invocation log, threaded as an erased `Tracked<&mut Log>` parameter (G1).  Only the boundary
/// contract of `BoxedFunction::call` appends to it.
pub tracked struct Log { pub ghost calls: Seq<Call> }

/// Stand-in for the alias `Box<dyn UserFunction + Send + Sync + 'static>` (user code).
/// ASSUMED: `name()` and `cacheable()` are pure and stable; `call` is one invocation whose result is a
/// function `uf` of (function, argument view, invocations so far) -- it may depend on history.
#[verifier::external_body]
pub struct BoxedFunction { _p: () }

pub uninterp spec fn uf(f: BoxedFunction, arg: Val, log: Seq<Call>) -> core::result::Result<Value, anyhow::Error>;

impl BoxedFunction {
    pub uninterp spec fn spec_name(&self) -> &'static str;
    pub uninterp spec fn spec_cacheable(&self) -> bool;

    #[verifier::external_body]
    pub fn name(&self) -> (r: &'static str) ensures r == self.spec_name() { unimplemented!() }
    #[verifier::external_body]
    pub fn cacheable(&self) -> (r: bool) ensures r == self.spec_cacheable() { unimplemented!() }
    #[verifier::external_body]
    pub async fn call(&self, params: Value, Tracked(log): Tracked<&mut Log>) -> (r: FunctionResult)
        ensures
            final(log).calls == old(log).calls.push(Call { name: self.spec_name()@, arg: vv(params) }),
            r == uf(*self, vv(params), old(log).calls),
    { unimplemented!() }
}

/// std: `BTreeMap::append` moves every entry of `other` into `self` (an entry of `other` replaces one with the same key) and leaves
/// `other` empty.  ASSUMED (documented behaviour).
pub assume_specification<K, V, A>[BTreeMap::<K, V, A>::append](m: &mut BTreeMap<K, V, A>, other: &mut BTreeMap<K, V, A>)
    where A: std::alloc::Allocator + Clone, K: Ord, A: Clone,
    ensures
        final(m)@ == old(m)@.union_prefer_right(old(other)@),
        final(other)@ == Map::<K, V>::empty(),
;

/// Stand-in for `serde::Serialize` as `RuleSet::evaluate` uses it: the only serializer it is given is `ValueSerializer`, whose
/// `Ok = Value`, `Error = Error`.  ASSUMED: serializing is a function `ser_spec` of the input (deterministic, no effect on the
/// ruleset or the invocation log).  What `ser_spec` is for each shape of input is C13's subject (Kani, unit `ser`), not this unit's.
pub trait Serialize {
    spec fn ser_spec(&self) -> core::result::Result<Value, Error>;
    fn serialize(&self, serializer: ValueSerializer) -> (r: core::result::Result<Value, Error>)
        ensures r == self.ser_spec();
}

/// Stand-in for the user-facing trait `UserFunction` (implemented by user code).  Only what boxing must preserve is modelled.
pub trait UserFunction: Sized {
    spec fn uf_name(&self) -> &'static str;
    spec fn uf_cacheable(&self) -> bool;
}

/// R20: `Box::new(f)` used where a `BoxedFunction` (= `Box<dyn UserFunction + Send + Sync>`) is expected.
/// ASSUMED: the trait object dispatches to the boxed value, i.e. it reports the same `name()` and `cacheable()`.
#[verifier::external_body]
pub fn box_user_function<F: UserFunction + Send + Sync + 'static>(f: F) -> (r: BoxedFunction)
    ensures r.spec_name() == f.uf_name(), r.spec_cacheable() == f.uf_cacheable(),
{ unimplemented!() }

/// ascending key order of a finite map with String keys = the order in which `&BTreeMap` iterates (std guarantee)
pub uninterp spec fn key_order(dom: Set<String>) -> Seq<String>;
#[verifier::external_body]
pub broadcast proof fn axiom_key_order(dom: Set<String>)
    requires dom.finite(),
    ensures
        (#[trigger] key_order(dom)).no_duplicates(),
        key_order(dom).to_set() == dom,
        key_order(dom).len() == dom.len(),
{}

/// R4: `for (k, v) in map` with `map: &BTreeMap<String, V>` (`IntoIterator for &BTreeMap`, i.e. `map.iter()`) is routed through
/// this boundary function.  ASSUMED: it yields exactly the entries of the map, in key_order (std: ascending key order).
#[verifier::external_body]
pub fn btree_entries<'a, V>(m: &'a BTreeMap<String, V>) -> (r: Vec<(&'a String, &'a V)>)
    ensures
        r@.len() == key_order(m@.dom()).len(),
        forall|i: int| 0 <= i < r@.len() ==> *(#[trigger] r@[i]).0 == key_order(m@.dom())[i]
            && m@.dom().contains(key_order(m@.dom())[i]) && *r@[i].1 == m@[key_order(m@.dom())[i]],
{ m.iter().collect() }

// `impl<V: Into<Value>> From<Vec<V>> for Value` and `impl<K: Into<String>, V: Into<Value>> From<BTreeMap<K, V>> for Value`
// (src/value/convert.rs) are `into_iter().map(Into::into).collect()`: iterator adapters, outside Verus' subset.
// ASSUMED for the instantiations used by eval_vec / eval_map (V = Value, K = String): the identity rebuild.
impl vstd::std_specs::convert::FromSpecImpl<Vec<Value>> for Value {
    open spec fn obeys_from_spec() -> bool { true }
    open spec fn from_spec(v: Vec<Value>) -> Value { Value::Vec(v) }
}
impl From<Vec<Value>> for Value {
    #[verifier::external_body]
    fn from(vec: Vec<Value>) -> Value { unimplemented!() }
}
impl vstd::std_specs::convert::FromSpecImpl<BTreeMap<String, Value>> for Value {
    open spec fn obeys_from_spec() -> bool { true }
    open spec fn from_spec(v: BTreeMap<String, Value>) -> Value { Value::Map(v) }
}
impl From<BTreeMap<String, Value>> for Value {
    #[verifier::external_body]
    fn from(map: BTreeMap<String, Value>) -> Value { unimplemented!() }
}

// ---- `BTreeMap<&'static str, BoxedFunction>` key model and `format!` pieces (unit U3) --------------------
pub mod ax_fn {
use super::*;
#[verifier::external_body]
pub broadcast proof fn axiom_str_of(s: Seq<char>) ensures #[trigger] str_of(s)@ == s {}
/// equal views = equal `&str` values
#[verifier::external_body]
pub broadcast proof fn axiom_sstr_ext_auto(a: &'static str, b: &'static str)
    ensures (#[trigger] a@) == (#[trigger] b@) ==> a == b,
{}
/// ASSUMED: `&'static str: Ord` is a total order consistent with `==`; a borrowed `&str` compares like the key
#[verifier::external_body]
pub broadcast proof fn axiom_sstr_key_model()
    ensures
        #[trigger] vstd::std_specs::btree::key_obeys_cmp_spec::<&'static str>(),
        vstd::std_specs::btree::borrowed_key_ordering_matches::<&'static str, str>(),
{}
#[verifier::external_body]
pub broadcast proof fn axiom_sstr_borrowed_key<V>(m: Map<&'static str, V>, k: &str)
    ensures #[trigger] vstd::std_specs::btree::contains_borrowed_key(m, k) <==> m.dom().contains(str_of(k@)),
{}
#[verifier::external_body]
pub broadcast proof fn axiom_sstr_borrowed_key_value<V>(m: Map<&'static str, V>, k: &str, v: V)
    ensures #[trigger] vstd::std_specs::btree::maps_borrowed_key_to_value(m, k, v) <==> (m.dom().contains(str_of(k@)) && m[str_of(k@)] == v),
{}
/// `PartialEq for &str` compares the characters
#[verifier::external_body]
pub broadcast proof fn axiom_str_ref_eq(a: &&'static str, b: &&'static str)
    ensures <&'static str as PartialEqSpec>::obeys_eq_spec(), #[trigger] PartialEqSpec::eq_spec(a, b) == ((**a)@ == (**b)@),
{}
/// `{x}` on a `&str` writes its characters; `{v:?}` on a `Value` is a function of the value's view (derived Debug)
#[verifier::external_body]
pub broadcast proof fn axiom_fmt_display_str(a: &&str) ensures #[trigger] fmt_display::<&str>(a) == (**a)@ {}
#[verifier::external_body]
pub broadcast proof fn axiom_fmt_debug_value(a: &Value) ensures #[trigger] fmt_debug::<Value>(a) == debug_val(vv(*a)) {}
}
pub use ax_fn::*;

/// R5: what `{}` / `{:?}` write for a value
pub uninterp spec fn fmt_display<A: ?Sized>(a: &A) -> Seq<char>;
pub uninterp spec fn fmt_debug<A: ?Sized>(a: &A) -> Seq<char>;

// unicode-xid: the per-character predicates are ASSUMED (table lookups in a foreign crate)
pub uninterp spec fn xid_start(c: char) -> bool;
pub uninterp spec fn xid_continue(c: char) -> bool;
pub trait UnicodeXID: Sized {
    fn is_xid_start(self) -> bool;
    fn is_xid_continue(self) -> bool;
}
impl UnicodeXID for char {
    #[verifier::external_body]
    fn is_xid_start(self) -> (r: bool) ensures r == xid_start(self) { unimplemented!() }
    #[verifier::external_body]
    fn is_xid_continue(self) -> (r: bool) ensures r == xid_continue(self) { unimplemented!() }
}
/// C15: "a well-formed identifier": '_' or an XID_Start character, followed only by XID_Continue characters
pub open spec fn is_ident_spec(s: Seq<char>) -> bool {
    s.len() > 0 && (s[0] == '_' || xid_start(s[0])) && forall|i: int| 1 <= i < s.len() ==> xid_continue(#[trigger] s[i])
}
/// R17b: `chars.all(f)` is routed through this boundary function (same reason as R17); sound for any closure
#[verifier::external_body]
pub fn chars_all<F: Fn(char) -> bool>(it: &mut core::str::Chars<'_>, f: F) -> (r: bool)
    ensures
        r ==> (forall|i: int| 0 <= i < (*old(it)).remaining().len() ==> call_ensures(f, (#[trigger] (*old(it)).remaining()[i],), true)),
        !r ==> (exists|i: int| 0 <= i < (*old(it)).remaining().len() && call_ensures(f, (#[trigger] (*old(it)).remaining()[i],), false)),
{ it.all(f) }

// derived `Default` (ASSUMED: empty collections)
impl Default for UserFunctions {
    #[verifier::external_body]
    fn default() -> (r: Self) ensures r.functions@ == Map::<&'static str, BoxedFunction>::empty() { unimplemented!() }
}
impl Default for Symbols {
    #[verifier::external_body]
    fn default() -> (r: Self) ensures r.0@ == Map::<String, Value>::empty() { unimplemented!() }
}

// R6: `lazy_static! { static ref EMPTY_RULES: RuleSet = Default::default(); }` -- ASSUMED: derived Default = no rules,
// no functions, no symbols
pub uninterp spec fn empty_rules_spec() -> RuleSet;
pub mod ax_empty {
use super::*;
#[verifier::external_body]
pub broadcast proof fn axiom_empty_rules()
    ensures
        (#[trigger] empty_rules_spec()).rules@.len() == 0,
        empty_rules_spec().functions.functions@ == Map::<&'static str, BoxedFunction>::empty(),
        empty_rules_spec().symbols.0@ == Map::<String, Value>::empty(),
{}
}
pub use ax_empty::*;
#[verifier::external_body]
pub fn empty_rules() -> (r: &'static RuleSet) ensures *r == empty_rules_spec() { unimplemented!() }
