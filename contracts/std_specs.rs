// =================================================================================================
// ASSUMED contracts for std functions that vstd does not specify (trusted base, DESIGN.md section 6.2)
// =================================================================================================

// ---- f64: IEEE operations are total; their results are vstd's uninterpreted *_spec functions ----------
pub mod ax_f64 {
use super::*;
#[verifier::external_body]
pub broadcast proof fn axiom_f64_add_total(a: f64, b: f64) ensures #[trigger] a.add_req(b) {}
#[verifier::external_body]
pub broadcast proof fn axiom_f64_sub_total(a: f64, b: f64) ensures #[trigger] a.sub_req(b) {}
#[verifier::external_body]
pub broadcast proof fn axiom_f64_mul_total(a: f64, b: f64) ensures #[trigger] a.mul_req(b) {}
#[verifier::external_body]
pub broadcast proof fn axiom_f64_div_total(a: f64, b: f64) ensures #[trigger] a.div_req(b) {}
#[verifier::external_body]
pub broadcast proof fn axiom_f64_rem_total(a: f64, b: f64) ensures #[trigger] a.rem_req(b) {}
#[verifier::external_body]
pub broadcast proof fn axiom_f64_neg_total(a: f64) ensures #[trigger] a.neg_req() {}
#[verifier::external_body]
pub broadcast proof fn axiom_f64_obeys()
    ensures
        #[trigger] <f64 as AddSpec>::obeys_add_spec(),
        <f64 as SubSpec>::obeys_sub_spec(),
        <f64 as MulSpec>::obeys_mul_spec(),
        <f64 as DivSpec>::obeys_div_spec(),
        <f64 as RemSpec>::obeys_rem_spec(),
        <f64 as NegSpec>::obeys_neg_spec(),
        <f64 as PartialEqSpec>::obeys_eq_spec(),
        <f64 as PartialOrdSpec>::obeys_partial_cmp_spec(),
{}
pub broadcast group group_f64 {
    axiom_f64_add_total, axiom_f64_sub_total, axiom_f64_mul_total, axiom_f64_div_total, axiom_f64_rem_total, axiom_f64_neg_total,
}

}
pub use ax_f64::*;

// ---- bool `&` / `|` (non-short-circuit): total, equal to && / || ------------------------------------------
pub mod ax_bool {
use super::*;
#[verifier::external_body]
pub broadcast proof fn axiom_bool_bitand(a: bool, b: bool)
    ensures #[trigger] a.bitand_req(b), <bool as BitAndSpec>::obeys_bitand_spec(), a.bitand_spec(b) == (a && b) {}
#[verifier::external_body]
pub broadcast proof fn axiom_bool_bitor(a: bool, b: bool)
    ensures #[trigger] a.bitor_req(b), <bool as BitOrSpec>::obeys_bitor_spec(), a.bitor_spec(b) == (a || b) {}
}
pub use ax_bool::*;

pub assume_specification[ f64::floor ](a: f64) -> (r: f64) ensures r == f64_floor(a);
pub assume_specification[ f64::round ](a: f64) -> (r: f64) ensures r == f64_round(a);
pub assume_specification[ f64::fract ](a: f64) -> (r: f64) ensures r == f64_fract(a);



#[verifier::external_type_specification]
#[verifier::external_body]
pub struct ExParseIntError(std::num::ParseIntError);
#[verifier::external_type_specification]
#[verifier::external_body]
pub struct ExParseFloatError(std::num::ParseFloatError);

// ---- from_str --------------------------------------------------------------------------------------------
pub assume_specification[ <i128 as core::str::FromStr>::from_str ](s: &str) -> (r: core::result::Result<i128, core::num::ParseIntError>)
    ensures
        r is Ok <==> i128_from_str(s@) is Some,
        r is Ok ==> r->Ok_0 == i128_from_str(s@)->0;
pub assume_specification[ <f64 as core::str::FromStr>::from_str ](s: &str) -> (r: core::result::Result<f64, core::num::ParseFloatError>)
    ensures
        r is Ok <==> f64_from_str(s@) is Some,
        r is Ok ==> r->Ok_0 == f64_from_str(s@)->0;

// ---- str ---------------------------------------------------------------------------------------------------
pub assume_specification[ str::to_uppercase ](s: &str) -> (r: String) ensures r@ == str_upper(s@);
pub assume_specification[ str::to_lowercase ](s: &str) -> (r: String) ensures r@ == str_lower(s@);
pub assume_specification[ str::trim ](s: &str) -> (r: &str) ensures r@ == str_trim(s@);

// ---- BTreeMap<String, _> key model -----------------------------------------------------------------------
// ASSUMED: `String: Ord` is a total order consistent with `==` (so vstd's BTreeMap specs apply), and the
// borrowed forms `&String` / `&str` of a key compare like the key itself (`String: Borrow<str>`).
pub mod ax_keys {
use super::*;
#[verifier::external_body]
pub broadcast proof fn axiom_string_key_model()
    ensures
        #[trigger] vstd::std_specs::btree::key_obeys_cmp_spec::<String>(),
        vstd::std_specs::btree::borrowed_key_ordering_matches::<String, String>(),
        vstd::std_specs::btree::borrowed_key_ordering_matches::<String, str>(),
{}
#[verifier::external_body]
pub broadcast proof fn axiom_str_borrowed_key<V>(m: Map<String, V>, k: &str)
    ensures
        #[trigger] vstd::std_specs::btree::contains_borrowed_key(m, k) <==> (exists|ks: String| ks@ == k@ && #[trigger] m.dom().contains(ks)),
{}
#[verifier::external_body]
pub broadcast proof fn axiom_str_borrowed_key_value<V>(m: Map<String, V>, k: &str, v: V)
    ensures
        #[trigger] vstd::std_specs::btree::maps_borrowed_key_to_value(m, k, v) <==> (exists|ks: String| ks@ == k@ && #[trigger] m.dom().contains(ks) && m[ks] == v),
{}

}
pub use ax_keys::*;


#[verifier::external_trait_specification]
pub trait ExFromStr: Sized {
    type ExternalTraitSpecificationFor: core::str::FromStr;
    type Err;
    fn from_str(s: &str) -> core::result::Result<Self, Self::Err>;
}
#[verifier::external_trait_specification]
pub trait ExPattern: Sized {
    type ExternalTraitSpecificationFor: core::str::pattern::Pattern;
}
/// the string a `Pattern` value searches for (only `&String` patterns occur in the crate)
pub uninterp spec fn pattern_str<P>(p: P) -> Seq<char>;
pub mod ax_pat {
use super::*;
#[verifier::external_body]
pub broadcast proof fn axiom_pattern_string(p: &String) ensures #[trigger] pattern_str::<&String>(p) == p@ {}
}
pub use ax_pat::*;
pub assume_specification<P: core::str::pattern::Pattern>[ str::contains::<P> ](s: &str, p: P) -> (r: bool)
    ensures r == str_contains(s@, pattern_str(p));

// `str::parse::<F>()` is `F::from_str(self)`
pub assume_specification<F: core::str::FromStr>[ str::parse::<F> ](s: &str) -> (r: core::result::Result<F, F::Err>)
    ensures call_ensures(F::from_str, (s,), r);

// `[T]::contains`, `str::contains(&String)`
pub assume_specification<T: PartialEq>[ <[T]>::contains ](s: &[T], x: &T) -> (r: bool)
    ensures T::obeys_eq_spec() ==> r == (exists|j: int| 0 <= j < s@.len() && #[trigger] s@[j].eq_spec(x));

// `i128::checked_neg` (vstd specifies checked_add/sub/mul/div/rem but not checked_neg)
pub assume_specification[ i128::checked_neg ](a: i128) -> (r: Option<i128>)
    ensures r == (if a == i128::MIN { None::<i128> } else { Some((-a) as i128) });

// R10: `x as f64` on an i128 (exec int->float casts have no spec in Verus): deterministic function of the operand
#[verifier::external_body]
pub fn cast_i128_as_f64(x: i128) -> (r: f64) ensures r == i128_to_f64(x) { x as f64 }

// `Result<&T, E>::cloned` (vstd specifies Option::cloned only)
pub assume_specification<T: Clone, E>[ core::result::Result::<&T, E>::cloned ](r: core::result::Result<&T, E>) -> (res: core::result::Result<T, E>)
    ensures
        r is Ok ==> res is Ok && call_ensures(T::clone, (r->Ok_0,), res->Ok_0),
        r is Err ==> res is Err && res->Err_0 == r->Err_0;

// R17: `v.iter().any(f)` on a Vec is routed through this boundary function (vstd cannot express `Iterator::any` for
// slice iterators: its iterator model and the Iterator impl form a definition cycle).  ASSUMED contract, sound for any
// closure: the result is justified by the closure's own postcondition on some / every element.
#[verifier::external_body]
pub fn vec_iter_any<T, F: FnMut(&T) -> bool>(v: &Vec<T>, f: F) -> (r: bool)
    ensures
        r ==> exists|i: int| 0 <= i < v@.len() && call_ensures(f, (&#[trigger] v@[i],), true),
        !r ==> forall|i: int| 0 <= i < v@.len() ==> call_ensures(f, (&#[trigger] v@[i],), false),
{ v.iter().any(f) }

// R21: `v.into_iter().map(f).collect()` on a Vec is routed through these boundary functions.  ASSUMED (std): `map` applies the
// closure to the elements in order, `collect::<Vec<_>>()` keeps them in order, `collect::<Result<Vec<_>, E>>()` returns the first
// `Err` in order (every earlier element having produced `Ok`).  Stated through the closure's own postcondition: sound for any closure.
#[verifier::external_body]
pub fn vec_into_iter_map_collect<T, U, F: FnMut(T) -> U>(v: Vec<T>, f: F) -> (r: Vec<U>)
    ensures
        r@.len() == v@.len(),
        forall|i: int| 0 <= i < v@.len() ==> call_ensures(f, (v@[i],), #[trigger] r@[i]),
{ v.into_iter().map(f).collect() }

/// "the closure can return `Ok` on x" (named so that it can sit under a quantifier with a usable trigger)
pub open spec fn fn_can_ok<T, U, E, F: FnMut(T) -> core::result::Result<U, E>>(f: F, x: T) -> bool { exists|u: U| call_ensures(f, (x,), Ok::<U, E>(u)) }

#[verifier::external_body]
pub fn vec_into_iter_try_map_collect<T, U, E, F: FnMut(T) -> core::result::Result<U, E>>(v: Vec<T>, f: F) -> (r: core::result::Result<Vec<U>, E>)
    ensures
        match r {
            Ok(out) => out@.len() == v@.len() && forall|i: int| 0 <= i < v@.len() ==> call_ensures(f, (v@[i],), Ok::<U, E>(#[trigger] out@[i])),
            Err(e) => exists|i: int| 0 <= i < v@.len() && call_ensures(f, (#[trigger] v@[i],), Err::<U, E>(e))
                && forall|j: int| 0 <= j < i ==> fn_can_ok(f, #[trigger] v@[j]),
        },
{ v.into_iter().map(f).collect() }

// R21 for maps.  ASSUMED (std): `into_iter().map(f).collect()` from a map into a map applies the closure once to every entry and
// the result holds exactly the produced pairs (when two produced keys collide one of them survives: the clauses below do not say
// which).  For `Result` targets: `Err(e)` is some entry's error, `Ok` means every entry produced `Ok`.  Stated through the closure's
// own postcondition, hence sound for any closure.  Iteration ORDER is not modelled (it cannot be observed in the resulting map).
pub open spec fn pair_has_src<K, V, K2, V2, F: FnMut((K, V)) -> (K2, V2)>(f: F, m: Map<K, V>, k2: K2, v2: V2) -> bool {
    exists|k: K| m.dom().contains(k) && call_ensures(f, ((k, m[k]),), (k2, v2))
}
pub open spec fn pair_has_dst<K, V, K2, V2, F: FnMut((K, V)) -> (K2, V2)>(f: F, k: K, v: V, out: Map<K2, V2>) -> bool {
    exists|k2: K2, v2: V2| call_ensures(f, ((k, v),), (k2, v2)) && out.dom().contains(k2)
}
pub open spec fn try_pair_has_src<K, V, K2, V2, E, F: FnMut((K, V)) -> core::result::Result<(K2, V2), E>>(f: F, m: Map<K, V>, k2: K2, v2: V2) -> bool {
    exists|k: K| m.dom().contains(k) && call_ensures(f, ((k, m[k]),), Ok::<(K2, V2), E>((k2, v2)))
}
pub open spec fn try_pair_has_dst<K, V, K2, V2, E, F: FnMut((K, V)) -> core::result::Result<(K2, V2), E>>(f: F, k: K, v: V, out: Map<K2, V2>) -> bool {
    exists|k2: K2, v2: V2| call_ensures(f, ((k, v),), Ok::<(K2, V2), E>((k2, v2))) && out.dom().contains(k2)
}
pub open spec fn try_pair_fails<K, V, K2, V2, E, F: FnMut((K, V)) -> core::result::Result<(K2, V2), E>>(f: F, m: Map<K, V>, e: E) -> bool {
    exists|k: K| m.dom().contains(k) && call_ensures(f, ((k, m[k]),), Err::<(K2, V2), E>(e))
}

#[verifier::external_body]
pub fn btree_into_iter_map_collect_btree<K, V, K2: Ord, V2, F: FnMut((K, V)) -> (K2, V2)>(m: BTreeMap<K, V>, f: F) -> (r: BTreeMap<K2, V2>)
    ensures
        forall|k2: K2| #[trigger] r@.dom().contains(k2) ==> pair_has_src(f, m@, k2, r@[k2]),
        forall|k: K| #[trigger] m@.dom().contains(k) ==> pair_has_dst(f, k, m@[k], r@),
{ m.into_iter().map(f).collect() }

#[verifier::external_body]
pub fn hash_into_iter_map_collect_btree<K, V, K2: Ord, V2, F: FnMut((K, V)) -> (K2, V2)>(m: std::collections::HashMap<K, V>, f: F) -> (r: BTreeMap<K2, V2>)
    ensures
        forall|k2: K2| #[trigger] r@.dom().contains(k2) ==> pair_has_src(f, m@, k2, r@[k2]),
        forall|k: K| #[trigger] m@.dom().contains(k) ==> pair_has_dst(f, k, m@[k], r@),
{ m.into_iter().map(f).collect() }

#[verifier::external_body]
pub fn btree_into_iter_try_map_collect_btree<K, V, K2: Ord, V2, E, F: FnMut((K, V)) -> core::result::Result<(K2, V2), E>>(m: BTreeMap<K, V>, f: F) -> (r: core::result::Result<BTreeMap<K2, V2>, E>)
    ensures
        match r {
            Ok(out) => (forall|k2: K2| #[trigger] out@.dom().contains(k2) ==> try_pair_has_src(f, m@, k2, out@[k2]))
                && (forall|k: K| #[trigger] m@.dom().contains(k) ==> try_pair_has_dst(f, k, m@[k], out@)),
            Err(e) => try_pair_fails(f, m@, e),
        },
{ m.into_iter().map(f).collect() }

#[verifier::external_body]
pub fn btree_into_iter_try_map_collect_hash<K, V, K2: Eq + core::hash::Hash, V2, E, F: FnMut((K, V)) -> core::result::Result<(K2, V2), E>>(m: BTreeMap<K, V>, f: F) -> (r: core::result::Result<std::collections::HashMap<K2, V2>, E>)
    ensures
        match r {
            Ok(out) => (forall|k2: K2| #[trigger] out@.dom().contains(k2) ==> try_pair_has_src(f, m@, k2, out@[k2]))
                && (forall|k: K| #[trigger] m@.dom().contains(k) ==> try_pair_has_dst(f, k, m@[k], out@)),
            Err(e) => try_pair_fails(f, m@, e),
        },
{ m.into_iter().map(f).collect() }

/// `btree.into_iter().collect::<HashMap<_, _>>()`: same entries
#[verifier::external_body]
pub fn btree_into_iter_collect_hash<K: Eq + core::hash::Hash, V>(m: BTreeMap<K, V>) -> (r: std::collections::HashMap<K, V>)
    ensures r@ == m@,
{ m.into_iter().collect() }

/// what `ToString::to_string` produces for a value (generic `impl ToString` parameters)
#[verifier::external_trait_specification]
#[verifier::external_trait_extension(ToStringSpec via ToStringSpecImpl)]
pub trait ExToString {
    type ExternalTraitSpecificationFor: ToString;
    spec fn to_string_spec(&self) -> Seq<char>;
    fn to_string(&self) -> (r: String) ensures r@ == self.to_string_spec();
}

/// `String: ToString` copies the characters (ASSUMED; the impl is std's blanket `impl<T: Display> ToString for T`)
pub mod ax_tostring {
use super::*;
#[verifier::external_body]
pub broadcast proof fn axiom_string_to_string(s: String)
    ensures #[trigger] s.to_string_spec() == s@,
{}
/// `str: ToString` copies the characters; `char: ToString` is the one-character string (ASSUMED, std)
#[verifier::external_body]
pub broadcast proof fn axiom_str_to_string(s: &str)
    ensures #[trigger] s.to_string_spec() == s@,
{}
#[verifier::external_body]
pub broadcast proof fn axiom_char_to_string(c: char)
    ensures #[trigger] c.to_string_spec() == seq![c],
{}
/// `String::from(&str)` / `<&str as Into<String>>::into` copies the characters (ASSUMED, std)
#[verifier::external_body]
pub broadcast proof fn axiom_str_into_string(a: &str, b: String)
    ensures #[trigger] call_ensures(<&str as Into<String>>::into, (a,), b) ==> b@ == a@,
{}
/// `String::from(&str)` copies the characters (ASSUMED, std)
#[verifier::external_body]
pub broadcast proof fn axiom_string_from_str_obeys()
    ensures #[trigger] <String as vstd::std_specs::convert::FromSpec<&'static str>>::obeys_from_spec(),
{}
#[verifier::external_body]
pub broadcast proof fn axiom_string_from_str(s: &'static str)
    ensures (#[trigger] <String as vstd::std_specs::convert::FromSpec<&'static str>>::from_spec(s))@ == s@,
{}
/// `i128::try_from(u128)`: exact when it fits, the (one) TryFromIntError otherwise (ASSUMED, std)
#[verifier::external_body]
pub broadcast proof fn axiom_i128_try_from_u128_obeys()
    ensures #[trigger] <i128 as vstd::std_specs::convert::TryFromSpec<u128>>::obeys_try_from_spec(),
{}
#[verifier::external_body]
pub broadcast proof fn axiom_i128_try_from_u128(v: u128)
    ensures #[trigger] <i128 as vstd::std_specs::convert::TryFromSpec<u128>>::try_from_spec(v) ==
        (if v <= i128::MAX { Ok::<i128, core::num::TryFromIntError>(v as i128) } else { Err::<i128, core::num::TryFromIntError>(the_try_from_int_error()) }),
{}
}
pub use ax_tostring::*;

// ---- conversions used by src/value/convert.rs --------------------------------------------------------------
/// `std::num::TryFromIntError` is a unit-like struct: it has exactly one value
pub uninterp spec fn the_try_from_int_error() -> core::num::TryFromIntError;
pub open spec fn overflow_err(e: core::num::TryFromIntError) -> Error { Error::NumericOverflow(e) }
pub mod ax_conv {
use super::*;
#[verifier::external_body]
pub broadcast proof fn axiom_try_from_int_error_unique(e: core::num::TryFromIntError)
    ensures #[trigger] overflow_err(e) == overflow_err(the_try_from_int_error()),
{}
/// std: `impl<T> From<T> for T` is reflexive ("returns its argument"), here for the key type `String` of map conversions
#[verifier::external_body]
pub broadcast proof fn axiom_into_reflexive_string(a: String, b: String)
    ensures #[trigger] call_ensures(<String as Into<String>>::into, (a,), b) ==> a == b,
{}
}
pub use ax_conv::*;
/// `f64::from(f32)` is the exact widening
pub uninterp spec fn f32_to_f64(x: f32) -> f64;
pub assume_specification[ <f64 as core::convert::From<f32>>::from ](x: f32) -> (r: f64) ensures r == f32_to_f64(x);

// unsigned -> i128 widenings (vstd specifies the signed ones)
pub assume_specification[ <i128 as core::convert::From<u64>>::from ](x: u64) -> (r: i128) ensures r == x as i128;
pub assume_specification[ <i128 as core::convert::From<u32>>::from ](x: u32) -> (r: i128) ensures r == x as i128;
pub assume_specification[ <i128 as core::convert::From<u16>>::from ](x: u16) -> (r: i128) ensures r == x as i128;
pub assume_specification[ <i128 as core::convert::From<u8>>::from ](x: u8) -> (r: i128) ensures r == x as i128;

/// `Box<T>: AsRef<T>` (neighbouring API: a change that reaches through a box with `.as_ref()` should be refutable, not a tool limit)
pub assume_specification<T: ?Sized, A: std::alloc::Allocator>[ <Box<T, A> as AsRef<T>>::as_ref ](b: &Box<T, A>) -> (r: &T)
    ensures r == &**b;

// ---- byte-range slicing of `&str` (R23) and the shape of a lexer token ------------------------------------------------------------
pub open spec fn is_ascii_char(c: char) -> bool { (c as u32) < 128 }
pub open spec fn ascii_prefix(s: Seq<char>, n: int) -> bool { 0 <= n <= s.len() && forall|i: int| 0 <= i < n ==> is_ascii_char(#[trigger] s[i]) }
pub open spec fn ascii_suffix(s: Seq<char>, m: int) -> bool { 0 <= m <= s.len() && forall|i: int| s.len() - m <= i < s.len() ==> is_ascii_char(#[trigger] s[i]) }
/// length of the UTF-8 encoding (what `str::len` returns); every char takes at least one byte
pub uninterp spec fn str_byte_len(s: Seq<char>) -> nat;
pub mod ax_bytes {
use super::*;
#[verifier::external_body]
pub broadcast proof fn axiom_str_byte_len(s: Seq<char>) ensures #[trigger] str_byte_len(s) >= s.len() {}
}
pub use ax_bytes::*;
/// `s.len()` on a `&str` named by R23 (vstd's own `str::len` contract cannot be related to `str_byte_len`)
#[verifier::external_body]
pub fn str_len(s: &str) -> (r: usize)
    ensures r == str_byte_len(s@),
{ s.len() }
/// what the generated lexer hands to an action for a terminal (T1): literal prefix / suffix and minimal length read off the regex
pub open spec fn tok_shape(s: Seq<char>, pre: Seq<char>, suf: Seq<char>, minlen: nat) -> bool {
    s.len() >= minlen && pre.len() + suf.len() <= s.len() && s.subrange(0, pre.len() as int) == pre && s.subrange(s.len() - suf.len(), s.len() as int) == suf
}
/// `&s[start..]`.  std panics unless `start` is a char boundary <= len.  ASSUMED sufficient condition Verus can discharge: the first
/// `start` chars are ASCII (each is one byte, so byte offset `start` is the boundary after `start` chars).
#[verifier::external_body]
pub fn str_slice_from<'a>(s: &'a str, start: usize) -> (r: &'a str)
    requires ascii_prefix(s@, start as int),
    ensures r@ == s@.skip(start as int),
{ &s[start..] }
/// `&s[start..end]` with `end` counted back from the byte length: the last `str_byte_len - end` chars are ASCII
#[verifier::external_body]
pub fn str_slice<'a>(s: &'a str, start: usize, end: usize) -> (r: &'a str)
    requires
        ascii_prefix(s@, start as int),
        end <= str_byte_len(s@),
        ascii_suffix(s@, str_byte_len(s@) - end),
        start + (str_byte_len(s@) - end) <= s@.len(),
    ensures r@ == s@.subrange(start as int, s@.len() - (str_byte_len(s@) - end)),
{ &s[start..end] }
#[verifier::external_body]
pub fn str_full<'a>(s: &'a str) -> (r: &'a str)
    ensures r@ == s@,
{ &s[..] }
/// `i128::from_str_radix`: Ok iff the digit string denotes a value of that radix that fits (uninterpreted)
pub uninterp spec fn i128_from_str_radix(s: Seq<char>, radix: u32) -> Option<i128>;
pub assume_specification[ i128::from_str_radix ](s: &str, radix: u32) -> (r: core::result::Result<i128, core::num::ParseIntError>)
    ensures
        r is Ok <==> i128_from_str_radix(s@, radix) is Some,
        r is Ok ==> r->Ok_0 == i128_from_str_radix(s@, radix)->0;

// `usize::from_str` (grammar actions): Ok iff the digit string denotes a value that fits
pub uninterp spec fn usize_from_str(s: Seq<char>) -> Option<usize>;
pub assume_specification[ <usize as core::str::FromStr>::from_str ](s: &str) -> (r: core::result::Result<usize, core::num::ParseIntError>)
    ensures
        r is Ok <==> usize_from_str(s@) is Some,
        r is Ok ==> r->Ok_0 == usize_from_str(s@)->0;

// ---- neighbouring std API (not used by the crate today), specified with uninterpreted results so that a change that
// ---- switches to one of them is refuted against the oracle instead of being a tool limit ------------------------------
pub uninterp spec fn f64_trunc(a: f64) -> f64;
pub uninterp spec fn f64_ceil(a: f64) -> f64;
pub uninterp spec fn f64_abs(a: f64) -> f64;
pub uninterp spec fn f64_round_ties_even(a: f64) -> f64;
pub uninterp spec fn f64_is_finite(a: f64) -> bool;
pub uninterp spec fn f64_is_nan(a: f64) -> bool;
pub assume_specification[ f64::trunc ](a: f64) -> (r: f64) ensures r == f64_trunc(a);
pub assume_specification[ f64::ceil ](a: f64) -> (r: f64) ensures r == f64_ceil(a);
pub assume_specification[ f64::abs ](a: f64) -> (r: f64) ensures r == f64_abs(a);
pub assume_specification[ f64::round_ties_even ](a: f64) -> (r: f64) ensures r == f64_round_ties_even(a);
pub assume_specification[ f64::is_finite ](a: f64) -> (r: bool) ensures r == f64_is_finite(a);
pub assume_specification[ f64::is_nan ](a: f64) -> (r: bool) ensures r == f64_is_nan(a);

pub uninterp spec fn str_eq_ignore_ascii_case(a: Seq<char>, b: Seq<char>) -> bool;
pub assume_specification[ str::eq_ignore_ascii_case ](a: &str, b: &str) -> (r: bool) ensures r == str_eq_ignore_ascii_case(a@, b@);
pub uninterp spec fn str_starts_with(a: Seq<char>, p: Seq<char>) -> bool;
pub uninterp spec fn str_ends_with(a: Seq<char>, p: Seq<char>) -> bool;
pub assume_specification<P: core::str::pattern::Pattern>[ str::starts_with::<P> ](s: &str, p: P) -> (r: bool)
    ensures r == str_starts_with(s@, pattern_str(p));
pub uninterp spec fn str_trim_start(s: Seq<char>) -> Seq<char>;
pub uninterp spec fn str_trim_end(s: Seq<char>) -> Seq<char>;
pub assume_specification[ str::trim_start ](s: &str) -> (r: &str) ensures r@ == str_trim_start(s@);
pub assume_specification[ str::trim_end ](s: &str) -> (r: &str) ensures r@ == str_trim_end(s@);
pub uninterp spec fn str_to_ascii_uppercase(s: Seq<char>) -> Seq<char>;
pub uninterp spec fn str_to_ascii_lowercase(s: Seq<char>) -> Seq<char>;
pub assume_specification[ str::to_ascii_uppercase ](s: &str) -> (r: String) ensures r@ == str_to_ascii_uppercase(s@);
pub assume_specification[ str::to_ascii_lowercase ](s: &str) -> (r: String) ensures r@ == str_to_ascii_lowercase(s@);

pub assume_specification<T>[ Option::<T>::or ](a: Option<T>, b: Option<T>) -> (r: Option<T>)
    ensures r == (if a is Some { a } else { b });
pub assume_specification<T, F: FnOnce() -> Option<T>>[ Option::<T>::or_else::<F> ](a: Option<T>, f: F) -> (r: Option<T>)
    ensures a is Some ==> r == a, a is None ==> call_ensures(f, (), r);
pub assume_specification<T, E, F, O: FnOnce(E) -> core::result::Result<T, F>>[ core::result::Result::<T, E>::or_else::<F, O> ](a: core::result::Result<T, E>, op: O) -> (r: core::result::Result<T, F>)
    ensures a is Ok ==> r is Ok && r->Ok_0 == a->Ok_0, a is Err ==> call_ensures(op, (a->Err_0,), r);
