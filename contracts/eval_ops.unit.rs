#![allow(unused)]
#![feature(pattern)]
#![feature(allocator_api)]
#![allow(non_shorthand_field_patterns)]
use vstd::prelude::*;
use vstd::std_specs::ops::*;
use vstd::std_specs::cmp::*;
use std::collections::BTreeMap;
use core::str::FromStr;
use std::result;
use std::num::TryFromIntError;

verus! {

//@include standins.rs
//@include types.rs
//@include sem_val.rs
//@include std_specs.rs

pub mod code {
use super::*;
//@include broadcasts.rs

//@fn Error::invalid_cast
//@fn Error::value_out_of_bounds

//@fn <From<bool> for Value>::from
//@fn <From<i128> for Value>::from
//@fn <From<f64> for Value>::from

//@fn index
//@fn not
//@fn neg
//@fn some
//@fn none
//@fn int
//@fn float
//@fn dec
//@fn datetime
//@fn duration
//@fn mult
//@fn div
//@fn rem
//@fn add
//@fn sub
//@fn gt
//@fn gte
//@fn lt
//@fn lte
//@fn bitwise_and
//@fn bitwise_or
//@fn bitwise_xor
//@fn contains
//@fn uppercase
//@fn lowercase
//@fn trim
//@fn floor
//@fn round
//@fn fract
//@fn year
//@fn month
//@fn week
//@fn day
//@fn hour
//@fn minute
//@fn second

} // mod code

//@include sanity.rs

} // verus!
fn main() {}
