// =================================================================================================
// Stand-in types for dependency types (rust_decimal, chrono, anyhow) and ASSUMED contracts for the
// dependency / std functions the extracted bodies call.  Everything in this file is part of the
// trusted base (DESIGN.md section 6): the bodies are `external_body`, the specs are uninterpreted
// functions, i.e. the proofs say WHICH dependency operation is applied to WHICH operands in which
// order and what happens when it reports failure, not what the operation computes.
//
// A dependency operation that PANICS on some inputs carries its panic condition as a `requires`
// (via the vstd operator-spec traits), so calling it unguarded is a failed obligation (C01).
// =================================================================================================

// ---------- rust_decimal::Decimal ----------------------------------------------------------------
#[verifier::external_body]
pub struct Decimal { _p: [u32; 4] }

impl Clone for Decimal {
    #[verifier::external_body]
    fn clone(&self) -> (r: Self) ensures r == *self { unimplemented!() }
}
impl Copy for Decimal {}

pub uninterp spec fn dec_checked_add(a: Decimal, b: Decimal) -> Option<Decimal>;
pub uninterp spec fn dec_checked_sub(a: Decimal, b: Decimal) -> Option<Decimal>;
pub uninterp spec fn dec_checked_mul(a: Decimal, b: Decimal) -> Option<Decimal>;
pub uninterp spec fn dec_checked_div(a: Decimal, b: Decimal) -> Option<Decimal>;
pub uninterp spec fn dec_checked_rem(a: Decimal, b: Decimal) -> Option<Decimal>;
pub uninterp spec fn dec_neg(a: Decimal) -> Decimal;
pub uninterp spec fn dec_floor(a: Decimal) -> Decimal;
pub uninterp spec fn dec_round(a: Decimal) -> Decimal;
pub uninterp spec fn dec_fract(a: Decimal) -> Decimal;
pub uninterp spec fn dec_to_i128(a: Decimal) -> Option<i128>;
pub uninterp spec fn dec_to_f64(a: Decimal) -> Option<f64>;
pub uninterp spec fn dec_from_f64(a: f64) -> Option<Decimal>;
pub uninterp spec fn dec_from_i128(a: i128) -> Option<Decimal>;
pub uninterp spec fn dec_from_str(s: Seq<char>) -> Option<Decimal>;
pub uninterp spec fn dec_lt(a: Decimal, b: Decimal) -> bool;
pub uninterp spec fn dec_le(a: Decimal, b: Decimal) -> bool;
pub uninterp spec fn dec_eq(a: Decimal, b: Decimal) -> bool;

// `Decimal + Decimal` etc. panic on overflow ("Addition overflowed"): precondition = checked form is Some
impl vstd::std_specs::ops::AddSpecImpl for Decimal {
    open spec fn obeys_add_spec() -> bool { true }
    open spec fn add_req(self, rhs: Decimal) -> bool { dec_checked_add(self, rhs) is Some }
    open spec fn add_spec(self, rhs: Decimal) -> Decimal { dec_checked_add(self, rhs).unwrap() }
}
impl core::ops::Add for Decimal {
    type Output = Decimal;
    #[verifier::external_body]
    fn add(self, rhs: Decimal) -> Decimal { unimplemented!() }
}
impl vstd::std_specs::ops::SubSpecImpl for Decimal {
    open spec fn obeys_sub_spec() -> bool { true }
    open spec fn sub_req(self, rhs: Decimal) -> bool { dec_checked_sub(self, rhs) is Some }
    open spec fn sub_spec(self, rhs: Decimal) -> Decimal { dec_checked_sub(self, rhs).unwrap() }
}
impl core::ops::Sub for Decimal {
    type Output = Decimal;
    #[verifier::external_body]
    fn sub(self, rhs: Decimal) -> Decimal { unimplemented!() }
}
impl vstd::std_specs::ops::MulSpecImpl for Decimal {
    open spec fn obeys_mul_spec() -> bool { true }
    open spec fn mul_req(self, rhs: Decimal) -> bool { dec_checked_mul(self, rhs) is Some }
    open spec fn mul_spec(self, rhs: Decimal) -> Decimal { dec_checked_mul(self, rhs).unwrap() }
}
impl core::ops::Mul for Decimal {
    type Output = Decimal;
    #[verifier::external_body]
    fn mul(self, rhs: Decimal) -> Decimal { unimplemented!() }
}
// unary minus on Decimal flips the sign bit: total
impl vstd::std_specs::ops::NegSpecImpl for Decimal {
    open spec fn obeys_neg_spec() -> bool { true }
    open spec fn neg_req(self) -> bool { true }
    open spec fn neg_spec(self) -> Decimal { dec_neg(self) }
}
impl core::ops::Neg for Decimal {
    type Output = Decimal;
    #[verifier::external_body]
    fn neg(self) -> Decimal { unimplemented!() }
}
impl vstd::std_specs::cmp::PartialEqSpecImpl for Decimal {
    open spec fn obeys_eq_spec() -> bool { true }
    open spec fn eq_spec(&self, other: &Decimal) -> bool { dec_eq(*self, *other) }
}
impl PartialEq for Decimal {
    #[verifier::external_body]
    fn eq(&self, other: &Decimal) -> bool { unimplemented!() }
}
impl vstd::std_specs::cmp::PartialOrdSpecImpl for Decimal {
    open spec fn obeys_partial_cmp_spec() -> bool { true }
    open spec fn partial_cmp_spec(&self, other: &Decimal) -> Option<core::cmp::Ordering> {
        if dec_lt(*self, *other) { Some(core::cmp::Ordering::Less) }
        else if dec_eq(*self, *other) { Some(core::cmp::Ordering::Equal) }
        else { Some(core::cmp::Ordering::Greater) }
    }
}
impl PartialOrd for Decimal {
    #[verifier::external_body]
    fn partial_cmp(&self, other: &Decimal) -> Option<core::cmp::Ordering> { unimplemented!() }
}

impl Decimal {
    #[verifier::external_body]
    pub fn checked_add(self, rhs: Decimal) -> (r: Option<Decimal>) ensures r == dec_checked_add(self, rhs) { unimplemented!() }
    #[verifier::external_body]
    pub fn checked_sub(self, rhs: Decimal) -> (r: Option<Decimal>) ensures r == dec_checked_sub(self, rhs) { unimplemented!() }
    #[verifier::external_body]
    pub fn checked_mul(self, rhs: Decimal) -> (r: Option<Decimal>) ensures r == dec_checked_mul(self, rhs) { unimplemented!() }
    #[verifier::external_body]
    pub fn checked_div(self, rhs: Decimal) -> (r: Option<Decimal>) ensures r == dec_checked_div(self, rhs) { unimplemented!() }
    #[verifier::external_body]
    pub fn checked_rem(self, rhs: Decimal) -> (r: Option<Decimal>) ensures r == dec_checked_rem(self, rhs) { unimplemented!() }
    #[verifier::external_body]
    pub fn floor(&self) -> (r: Decimal) ensures r == dec_floor(*self) { unimplemented!() }
    #[verifier::external_body]
    pub fn round(&self) -> (r: Decimal) ensures r == dec_round(*self) { unimplemented!() }
    #[verifier::external_body]
    pub fn fract(&self) -> (r: Decimal) ensures r == dec_fract(*self) { unimplemented!() }
    // neighbouring API (not used by the crate today): specified so that a change that switches to one of them is REFUTED
    // against the table (different uninterpreted function) instead of being a tool limit
    #[verifier::external_body]
    pub fn trunc(&self) -> (r: Decimal) ensures r == dec_trunc(*self) { unimplemented!() }
    #[verifier::external_body]
    pub fn ceil(&self) -> (r: Decimal) ensures r == dec_ceil(*self) { unimplemented!() }
    #[verifier::external_body]
    pub fn abs(&self) -> (r: Decimal) ensures r == dec_abs(*self) { unimplemented!() }
    #[verifier::external_body]
    pub fn round_dp(&self, dp: u32) -> (r: Decimal) ensures r == dec_round_dp(*self, dp) { unimplemented!() }
    #[verifier::external_body]
    pub fn is_zero(&self) -> (r: bool) ensures r == dec_is_zero(*self) { unimplemented!() }
    #[verifier::external_body]
    pub fn is_sign_negative(&self) -> (r: bool) ensures r == dec_is_neg(*self) { unimplemented!() }
    #[verifier::external_body]
    pub fn saturating_add(self, rhs: Decimal) -> (r: Decimal) ensures r == dec_sat_add(self, rhs) { unimplemented!() }
    #[verifier::external_body]
    pub fn saturating_sub(self, rhs: Decimal) -> (r: Decimal) ensures r == dec_sat_sub(self, rhs) { unimplemented!() }
    #[verifier::external_body]
    pub fn saturating_mul(self, rhs: Decimal) -> (r: Decimal) ensures r == dec_sat_mul(self, rhs) { unimplemented!() }
}
pub uninterp spec fn dec_trunc(a: Decimal) -> Decimal;
pub uninterp spec fn dec_ceil(a: Decimal) -> Decimal;
pub uninterp spec fn dec_abs(a: Decimal) -> Decimal;
pub uninterp spec fn dec_round_dp(a: Decimal, dp: u32) -> Decimal;
pub uninterp spec fn dec_is_zero(a: Decimal) -> bool;
pub uninterp spec fn dec_is_neg(a: Decimal) -> bool;
pub uninterp spec fn dec_sat_add(a: Decimal, b: Decimal) -> Decimal;
pub uninterp spec fn dec_sat_sub(a: Decimal, b: Decimal) -> Decimal;
pub uninterp spec fn dec_sat_mul(a: Decimal, b: Decimal) -> Decimal;

// num_traits::ToPrimitive (re-exported by rust_decimal::prelude): checked numeric conversions
pub trait ToPrimitive: Sized {
    spec fn to_i128_spec(&self) -> Option<i128>;
    spec fn to_f64_spec(&self) -> Option<f64>;
    fn to_i128(&self) -> (r: Option<i128>) ensures r == self.to_i128_spec();
    fn to_f64(&self) -> (r: Option<f64>) ensures r == self.to_f64_spec();
}
pub uninterp spec fn f64_to_i128(a: f64) -> Option<i128>;
impl ToPrimitive for f64 {
    open spec fn to_i128_spec(&self) -> Option<i128> { f64_to_i128(*self) }
    open spec fn to_f64_spec(&self) -> Option<f64> { Some(*self) }
    #[verifier::external_body]
    fn to_i128(&self) -> (r: Option<i128>) { unimplemented!() }
    #[verifier::external_body]
    fn to_f64(&self) -> (r: Option<f64>) { unimplemented!() }
}
impl ToPrimitive for Decimal {
    open spec fn to_i128_spec(&self) -> Option<i128> { dec_to_i128(*self) }
    open spec fn to_f64_spec(&self) -> Option<f64> { dec_to_f64(*self) }
    #[verifier::external_body]
    fn to_i128(&self) -> (r: Option<i128>) { unimplemented!() }
    #[verifier::external_body]
    fn to_f64(&self) -> (r: Option<f64>) { unimplemented!() }
}

// ---------- chrono::TimeDelta ---------------------------------------------------------------------
#[verifier::external_body]
pub struct TimeDelta { _p: (i64, i32) }
impl Clone for TimeDelta {
    #[verifier::external_body]
    fn clone(&self) -> (r: Self) ensures r == *self { unimplemented!() }
}
impl Copy for TimeDelta {}

pub uninterp spec fn td_try_seconds(s: i64) -> Option<TimeDelta>;
pub uninterp spec fn td_try_minutes(s: i64) -> Option<TimeDelta>;
pub uninterp spec fn td_try_hours(s: i64) -> Option<TimeDelta>;
pub uninterp spec fn td_try_days(s: i64) -> Option<TimeDelta>;
pub uninterp spec fn td_try_weeks(s: i64) -> Option<TimeDelta>;
pub uninterp spec fn td_num_seconds(d: TimeDelta) -> i64;
pub uninterp spec fn td_num_minutes(d: TimeDelta) -> i64;
pub uninterp spec fn td_num_hours(d: TimeDelta) -> i64;
pub uninterp spec fn td_num_days(d: TimeDelta) -> i64;
pub uninterp spec fn td_num_weeks(d: TimeDelta) -> i64;
pub uninterp spec fn td_checked_add(a: TimeDelta, b: TimeDelta) -> Option<TimeDelta>;
pub uninterp spec fn td_checked_sub(a: TimeDelta, b: TimeDelta) -> Option<TimeDelta>;
pub uninterp spec fn td_lt(a: TimeDelta, b: TimeDelta) -> bool;
pub uninterp spec fn td_eq(a: TimeDelta, b: TimeDelta) -> bool;

impl TimeDelta {
    #[verifier::external_body]
    pub fn try_seconds(s: i64) -> (r: Option<TimeDelta>) ensures r == td_try_seconds(s) { unimplemented!() }
    #[verifier::external_body]
    pub fn try_minutes(s: i64) -> (r: Option<TimeDelta>) ensures r == td_try_minutes(s) { unimplemented!() }
    #[verifier::external_body]
    pub fn try_hours(s: i64) -> (r: Option<TimeDelta>) ensures r == td_try_hours(s) { unimplemented!() }
    #[verifier::external_body]
    pub fn try_days(s: i64) -> (r: Option<TimeDelta>) ensures r == td_try_days(s) { unimplemented!() }
    #[verifier::external_body]
    pub fn try_weeks(s: i64) -> (r: Option<TimeDelta>) ensures r == td_try_weeks(s) { unimplemented!() }
    #[verifier::external_body]
    pub fn num_seconds(&self) -> (r: i64) ensures r == td_num_seconds(*self) { unimplemented!() }
    #[verifier::external_body]
    pub fn num_minutes(&self) -> (r: i64) ensures r == td_num_minutes(*self) { unimplemented!() }
    #[verifier::external_body]
    pub fn num_hours(&self) -> (r: i64) ensures r == td_num_hours(*self) { unimplemented!() }
    #[verifier::external_body]
    pub fn num_days(&self) -> (r: i64) ensures r == td_num_days(*self) { unimplemented!() }
    #[verifier::external_body]
    pub fn num_weeks(&self) -> (r: i64) ensures r == td_num_weeks(*self) { unimplemented!() }
    #[verifier::external_body]
    pub fn checked_add(&self, rhs: &TimeDelta) -> (r: Option<TimeDelta>) ensures r == td_checked_add(*self, *rhs) { unimplemented!() }
    #[verifier::external_body]
    pub fn checked_sub(&self, rhs: &TimeDelta) -> (r: Option<TimeDelta>) ensures r == td_checked_sub(*self, *rhs) { unimplemented!() }
}
// `TimeDelta - TimeDelta` panics on overflow ("`TimeDelta - TimeDelta` overflowed")
impl vstd::std_specs::ops::SubSpecImpl for TimeDelta {
    open spec fn obeys_sub_spec() -> bool { true }
    open spec fn sub_req(self, rhs: TimeDelta) -> bool { td_checked_sub(self, rhs) is Some }
    open spec fn sub_spec(self, rhs: TimeDelta) -> TimeDelta { td_checked_sub(self, rhs).unwrap() }
}
impl core::ops::Sub for TimeDelta {
    type Output = TimeDelta;
    #[verifier::external_body]
    fn sub(self, rhs: TimeDelta) -> TimeDelta { unimplemented!() }
}
impl vstd::std_specs::ops::AddSpecImpl for TimeDelta {
    open spec fn obeys_add_spec() -> bool { true }
    open spec fn add_req(self, rhs: TimeDelta) -> bool { td_checked_add(self, rhs) is Some }
    open spec fn add_spec(self, rhs: TimeDelta) -> TimeDelta { td_checked_add(self, rhs).unwrap() }
}
impl core::ops::Add for TimeDelta {
    type Output = TimeDelta;
    #[verifier::external_body]
    fn add(self, rhs: TimeDelta) -> TimeDelta { unimplemented!() }
}
impl vstd::std_specs::cmp::PartialEqSpecImpl for TimeDelta {
    open spec fn obeys_eq_spec() -> bool { true }
    open spec fn eq_spec(&self, other: &TimeDelta) -> bool { td_eq(*self, *other) }
}
impl PartialEq for TimeDelta {
    #[verifier::external_body]
    fn eq(&self, other: &TimeDelta) -> bool { unimplemented!() }
}
impl vstd::std_specs::cmp::PartialOrdSpecImpl for TimeDelta {
    open spec fn obeys_partial_cmp_spec() -> bool { true }
    open spec fn partial_cmp_spec(&self, other: &TimeDelta) -> Option<core::cmp::Ordering> {
        if td_lt(*self, *other) { Some(core::cmp::Ordering::Less) }
        else if td_eq(*self, *other) { Some(core::cmp::Ordering::Equal) }
        else { Some(core::cmp::Ordering::Greater) }
    }
}
impl PartialOrd for TimeDelta {
    #[verifier::external_body]
    fn partial_cmp(&self, other: &TimeDelta) -> Option<core::cmp::Ordering> { unimplemented!() }
}

// ---------- chrono::DateTime<Utc> -----------------------------------------------------------------
pub struct Utc;
#[verifier::external_body]
#[verifier::reject_recursive_types(Tz)]
pub struct DateTime<Tz> { _p: (i64, u32), _t: core::marker::PhantomData<Tz> }
impl Clone for DateTime<Utc> {
    #[verifier::external_body]
    fn clone(&self) -> (r: Self) ensures r == *self { unimplemented!() }
}
impl Copy for DateTime<Utc> {}

pub uninterp spec fn dt_from_timestamp(secs: i64, nsecs: u32) -> Option<DateTime<Utc>>;
pub uninterp spec fn dt_from_str(s: Seq<char>) -> Option<DateTime<Utc>>;
pub uninterp spec fn dt_checked_add(a: DateTime<Utc>, d: TimeDelta) -> Option<DateTime<Utc>>;
pub uninterp spec fn dt_checked_sub(a: DateTime<Utc>, d: TimeDelta) -> Option<DateTime<Utc>>;
pub uninterp spec fn dt_since(a: DateTime<Utc>, b: DateTime<Utc>) -> TimeDelta;
pub uninterp spec fn dt_year(a: DateTime<Utc>) -> i32;
pub uninterp spec fn dt_month(a: DateTime<Utc>) -> u32;
pub uninterp spec fn dt_day(a: DateTime<Utc>) -> u32;
pub uninterp spec fn dt_hour(a: DateTime<Utc>) -> u32;
pub uninterp spec fn dt_minute(a: DateTime<Utc>) -> u32;
pub uninterp spec fn dt_second(a: DateTime<Utc>) -> u32;
pub uninterp spec fn dt_lt(a: DateTime<Utc>, b: DateTime<Utc>) -> bool;
pub uninterp spec fn dt_eq(a: DateTime<Utc>, b: DateTime<Utc>) -> bool;

impl DateTime<Utc> {
    #[verifier::external_body]
    pub fn from_timestamp(secs: i64, nsecs: u32) -> (r: Option<DateTime<Utc>>) ensures r == dt_from_timestamp(secs, nsecs) { unimplemented!() }
    #[verifier::external_body]
    pub fn checked_add_signed(self, rhs: TimeDelta) -> (r: Option<DateTime<Utc>>) ensures r == dt_checked_add(self, rhs) { unimplemented!() }
    #[verifier::external_body]
    pub fn checked_sub_signed(self, rhs: TimeDelta) -> (r: Option<DateTime<Utc>>) ensures r == dt_checked_sub(self, rhs) { unimplemented!() }
    #[verifier::external_body]
    pub fn signed_duration_since(self, rhs: DateTime<Utc>) -> (r: TimeDelta) ensures r == dt_since(self, rhs) { unimplemented!() }
    // chrono::Datelike / chrono::Timelike
    #[verifier::external_body]
    pub fn year(&self) -> (r: i32) ensures r == dt_year(*self) { unimplemented!() }
    #[verifier::external_body]
    pub fn month(&self) -> (r: u32) ensures r == dt_month(*self) { unimplemented!() }
    #[verifier::external_body]
    pub fn day(&self) -> (r: u32) ensures r == dt_day(*self) { unimplemented!() }
    #[verifier::external_body]
    pub fn hour(&self) -> (r: u32) ensures r == dt_hour(*self) { unimplemented!() }
    #[verifier::external_body]
    pub fn minute(&self) -> (r: u32) ensures r == dt_minute(*self) { unimplemented!() }
    #[verifier::external_body]
    pub fn second(&self) -> (r: u32) ensures r == dt_second(*self) { unimplemented!() }
}
// `DateTime + TimeDelta` / `DateTime - TimeDelta` panic on overflow (expect("`DateTime + TimeDelta` overflowed"))
impl vstd::std_specs::ops::AddSpecImpl<TimeDelta> for DateTime<Utc> {
    open spec fn obeys_add_spec() -> bool { true }
    open spec fn add_req(self, rhs: TimeDelta) -> bool { dt_checked_add(self, rhs) is Some }
    open spec fn add_spec(self, rhs: TimeDelta) -> DateTime<Utc> { dt_checked_add(self, rhs).unwrap() }
}
impl core::ops::Add<TimeDelta> for DateTime<Utc> {
    type Output = DateTime<Utc>;
    #[verifier::external_body]
    fn add(self, rhs: TimeDelta) -> DateTime<Utc> { unimplemented!() }
}
impl vstd::std_specs::ops::SubSpecImpl<TimeDelta> for DateTime<Utc> {
    open spec fn obeys_sub_spec() -> bool { true }
    open spec fn sub_req(self, rhs: TimeDelta) -> bool { dt_checked_sub(self, rhs) is Some }
    open spec fn sub_spec(self, rhs: TimeDelta) -> DateTime<Utc> { dt_checked_sub(self, rhs).unwrap() }
}
impl core::ops::Sub<TimeDelta> for DateTime<Utc> {
    type Output = DateTime<Utc>;
    #[verifier::external_body]
    fn sub(self, rhs: TimeDelta) -> DateTime<Utc> { unimplemented!() }
}
// `DateTime - DateTime` = signed_duration_since: total (TimeDelta spans more than the DateTime range)
impl vstd::std_specs::ops::SubSpecImpl<DateTime<Utc>> for DateTime<Utc> {
    open spec fn obeys_sub_spec() -> bool { true }
    open spec fn sub_req(self, rhs: DateTime<Utc>) -> bool { true }
    open spec fn sub_spec(self, rhs: DateTime<Utc>) -> TimeDelta { dt_since(self, rhs) }
}
impl core::ops::Sub<DateTime<Utc>> for DateTime<Utc> {
    type Output = TimeDelta;
    #[verifier::external_body]
    fn sub(self, rhs: DateTime<Utc>) -> TimeDelta { unimplemented!() }
}
impl vstd::std_specs::cmp::PartialEqSpecImpl for DateTime<Utc> {
    open spec fn obeys_eq_spec() -> bool { true }
    open spec fn eq_spec(&self, other: &DateTime<Utc>) -> bool { dt_eq(*self, *other) }
}
impl PartialEq for DateTime<Utc> {
    #[verifier::external_body]
    fn eq(&self, other: &DateTime<Utc>) -> bool { unimplemented!() }
}
impl vstd::std_specs::cmp::PartialOrdSpecImpl for DateTime<Utc> {
    open spec fn obeys_partial_cmp_spec() -> bool { true }
    open spec fn partial_cmp_spec(&self, other: &DateTime<Utc>) -> Option<core::cmp::Ordering> {
        if dt_lt(*self, *other) { Some(core::cmp::Ordering::Less) }
        else if dt_eq(*self, *other) { Some(core::cmp::Ordering::Equal) }
        else { Some(core::cmp::Ordering::Greater) }
    }
}
impl PartialOrd for DateTime<Utc> {
    #[verifier::external_body]
    fn partial_cmp(&self, other: &DateTime<Utc>) -> Option<core::cmp::Ordering> { unimplemented!() }
}

// ---- conversions into / out of Decimal --------------------------------------------------------------
#[verifier::external_body]
pub struct DecError { _p: () }

// rust_decimal: `impl From<i128> for Decimal { fn from(t) { FromPrimitive::from_i128(t).unwrap() } }` PANICS
// outside +-(2^96-1).  vstd's `From` specification has no slot for a precondition, so the panic cannot be a
// `requires` here; instead the value returned "when it does not panic" is an uninterpreted total function,
// and any use on an unchecked operand fails the caller's range postcondition (dec.int_range / dec.table).
pub uninterp spec fn dec_from_i128_unchecked(a: i128) -> Decimal;
impl vstd::std_specs::convert::FromSpecImpl<i128> for Decimal {
    open spec fn obeys_from_spec() -> bool { true }
    open spec fn from_spec(v: i128) -> Decimal { dec_from_i128_unchecked(v) }
}
impl From<i128> for Decimal {
    #[verifier::external_body]
    fn from(t: i128) -> Decimal { unimplemented!() }
}
impl vstd::std_specs::convert::TryFromSpecImpl<f64> for Decimal {
    open spec fn obeys_try_from_spec() -> bool { true }
    open spec fn try_from_spec(v: f64) -> core::result::Result<Decimal, DecError> {
        match dec_from_f64(v) { Some(d) => Ok(d), None => Err(dec_error()) }
    }
}
pub uninterp spec fn dec_error() -> DecError;
impl TryFrom<f64> for Decimal {
    type Error = DecError;
    #[verifier::external_body]
    fn try_from(t: f64) -> core::result::Result<Decimal, DecError> { unimplemented!() }
}
impl Decimal {
    // num_traits::FromPrimitive
    #[verifier::external_body]
    pub fn from_i128(n: i128) -> (r: Option<Decimal>) ensures r == dec_from_i128(n) { unimplemented!() }
    #[verifier::external_body]
    pub fn from_f64(n: f64) -> (r: Option<Decimal>) ensures r == dec_from_f64(n) { unimplemented!() }
    // core::str::FromStr
    #[verifier::external_body]
    pub fn from_str(s: &str) -> (r: core::result::Result<Decimal, DecError>)
        ensures
            r is Ok <==> dec_from_str(s@) is Some,
            r is Ok ==> r->Ok_0 == dec_from_str(s@)->0,
    { unimplemented!() }
}

#[verifier::external_body]
pub struct ChronoParseError { _p: () }
impl core::str::FromStr for DateTime<Utc> {
    type Err = ChronoParseError;
    #[verifier::external_body]
    fn from_str(s: &str) -> (r: core::result::Result<DateTime<Utc>, ChronoParseError>)
        ensures
            r is Ok <==> dt_from_str(s@) is Some,
            r is Ok ==> r->Ok_0 == dt_from_str(s@)->0,
    { unimplemented!() }
}
