// =================================================================================================
// Vacuity guards for the oracle: concrete instances of the tables (a table that is accidentally
// contradictory, or `arbitrary()`, fails these), and the canary that MUST FAIL: it has every axiom
// of the unit in scope, so if `false` becomes provable the trusted base is inconsistent.
// =================================================================================================
pub mod sanity {
use super::*;
//@include broadcasts.rs

pub proof fn sanity_tables()
    ensures
        t_add(Val::Int(1), Val::Int(2)) == Res::Ok(Val::Int(3)),
        t_add(Val::Int(i128::MAX as int), Val::Int(1)) == Res::Err(ErrK::OutOfBounds),
        t_sub(Val::Int(i128::MIN as int), Val::Int(1)) == Res::Err(ErrK::OutOfBounds),
        t_mult(Val::Int(6), Val::Int(7)) == Res::Ok(Val::Int(42)),
        t_neg(Val::Int(i128::MIN as int)) == Res::Err(ErrK::OutOfBounds),
        t_neg(Val::Int(5)) == Res::Ok(Val::Int(-5)),
        forall|f: f64| t_add(Val::Int(1), Val::Float(f)) == Res::Err(ErrK::InvalidType),
        forall|f: f64, d: Decimal| t_mult(Val::Float(f), Val::Dec(d)) == Res::Err(ErrK::InvalidType),
        forall|v: Val| t_add(Val::None, v) == Res::Ok(Val::None),
        forall|v: Val| t_add(v, Val::None) == Res::Ok(Val::None),
        forall|v: Val| t_gt(Val::None, v) == Res::Ok(Val::Bool(false)),
        forall|v: Val| t_lte(v, Val::None) == Res::Ok(Val::Bool(false)),
        t_gt(Val::Int(2), Val::Int(1)) == Res::Ok(Val::Bool(true)),
        t_gt(Val::Int(1), Val::Int(1)) == Res::Ok(Val::Bool(false)),
        t_gte(Val::Int(1), Val::Int(1)) == Res::Ok(Val::Bool(true)),
        t_lt(Val::Int(1), Val::Int(1)) == Res::Ok(Val::Bool(false)),
        t_lte(Val::Int(1), Val::Int(1)) == Res::Ok(Val::Bool(true)),
        t_not(Val::Bool(true)) == Res::Ok(Val::Bool(false)),
        t_not(Val::Int(1)) == Res::Err(ErrK::InvalidType),
        t_some(Val::None) == Res::Ok(Val::Bool(false)),
        t_none(Val::None) == Res::Ok(Val::Bool(true)),
        t_some(Val::Int(0)) == Res::Ok(Val::Bool(true)),
        t_bitand(Val::Bool(true), Val::Bool(false)) == Res::Ok(Val::Bool(false)),
        t_bitor(Val::Bool(true), Val::Bool(false)) == Res::Ok(Val::Bool(true)),
        t_bitxor(Val::Bool(true), Val::Bool(true)) == Res::Ok(Val::Bool(false)),
        t_bitand(Val::Int(1), Val::Bool(true)) == Res::Err(ErrK::InvalidType),
        forall|v: Val| t_contains(Val::None, v) == Res::Ok(Val::Bool(false)),
        t_contains(Val::Bool(true), Val::Bool(true)) == Res::Err(ErrK::InvalidType),
        t_int(Val::Bool(true)) == Res::Err(ErrK::InvalidType),
        t_int(Val::Int(7)) == Res::Ok(Val::Int(7)),
        t_duration(Val::Int(i64::MAX as int + 1)) == Res::Err(ErrK::InvalidCast),
        t_week(Val::Int(i64::MIN as int - 1)) == Res::Err(ErrK::OutOfBounds),
        t_index(Val::None, Idx::Pos(0)) == Res::Ok(Val::None),
        t_index(Val::Int(1), Idx::Pos(0)) == Res::Err(ErrK::InvalidType),
        t_index(Val::List(seq![Val::Int(5)]), Idx::Pos(0)) == Res::Ok(Val::Int(5)),
        t_index(Val::List(seq![Val::Int(5)]), Idx::Pos(1)) == Res::Ok(Val::None),
        t_uppercase(Val::Int(1)) == Res::Err(ErrK::InvalidType),
        t_round(Val::Int(1)) == Res::Err(ErrK::InvalidType),
        t_year(Val::None) == Res::Ok(Val::None),
{
    reveal_with_fuel(val_eq, 2);
    let l = seq![Val::Int(1), Val::None];
    assert(val_eq(l[1], Val::None));
    assert(0 <= 1 < l.len());
    assert(exists|j: int| 0 <= j < l.len() && val_eq(#[trigger] l[j], Val::None));
    assert(t_contains(Val::List(l), Val::None) == Res::Ok(Val::Bool(true)));   // ordinary list rule (C04 exception)
    let l3 = seq![Val::Int(1), Val::Int(3)];
    assert(forall|j: int| 0 <= j < l3.len() ==> !val_eq(#[trigger] l3[j], Val::None));
    assert(t_contains(Val::List(l3), Val::None) == Res::Ok(Val::Bool(false)));
    let l2 = seq![Val::Int(1), Val::Int(2)];
    assert(val_eq(l2[1], Val::Int(2)));
    assert(0 <= 1 < l2.len());
    assert(exists|j: int| 0 <= j < l2.len() && val_eq(#[trigger] l2[j], Val::Int(2)));
    assert(t_contains(Val::List(l2), Val::Int(2)) == Res::Ok(Val::Bool(true)));
}

/// C03 / C04 universals restated over the tables themselves, so an edit of sem_val.rs cannot silently
/// start coercing or stop propagating None
pub proof fn sanity_universals(a: Val, b: Val)
    ensures
        mixnum(a, b) ==> t_add(a, b) == r_itype() && t_sub(a, b) == r_itype() && t_mult(a, b) == r_itype()
            && t_div(a, b) == r_itype() && t_rem(a, b) == r_itype() && t_gt(a, b) == r_itype() && t_gte(a, b) == r_itype()
            && t_lt(a, b) == r_itype() && t_lte(a, b) == r_itype() && t_bitand(a, b) == r_itype() && t_bitor(a, b) == r_itype()
            && t_bitxor(a, b) == r_itype(),
        any_none(a, b) ==> t_add(a, b) == r_none() && t_sub(a, b) == r_none() && t_mult(a, b) == r_none()
            && t_div(a, b) == r_none() && t_rem(a, b) == r_none() && t_bitand(a, b) == r_none() && t_bitor(a, b) == r_none()
            && t_bitxor(a, b) == r_none(),
        any_none(a, b) ==> t_gt(a, b) == r_false() && t_gte(a, b) == r_false() && t_lt(a, b) == r_false() && t_lte(a, b) == r_false(),
        a is None ==> t_neg(a) == r_none() && t_not(a) == r_none() && t_int(a) == r_none() && t_float(a) == r_none()
            && t_dec(a) == r_none() && t_datetime(a) == r_none() && t_duration(a) == r_none() && t_uppercase(a) == r_none()
            && t_lowercase(a) == r_none() && t_trim(a) == r_none() && t_floor(a) == r_none() && t_round(a) == r_none()
            && t_fract(a) == r_none() && t_year(a) == r_none() && t_month(a) == r_none() && t_week(a) == r_none()
            && t_day(a) == r_none() && t_hour(a) == r_none() && t_minute(a) == r_none() && t_second(a) == r_none(),
        tag(a) != tag(b) ==> !val_eq(a, b),
{
}

/// MUST FAIL.  If this verifies, the axioms are inconsistent and nothing proved in this unit means anything.
pub proof fn canary()
    ensures false,  //@canary
{
}

} // mod sanity
