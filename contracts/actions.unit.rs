#![allow(unused)]
#![feature(pattern)]
#![feature(allocator_api)]
#![allow(non_shorthand_field_patterns)]
use vstd::prelude::*;
use vstd::std_specs::ops::*;
use vstd::std_specs::cmp::*;
use std::collections::BTreeMap;
use core::str::FromStr;
use std::result;
use std::num::{TryFromIntError, ParseIntError, ParseFloatError};

verus! {

//@include standins.rs
//@include types.rs
//@include sem_val.rs
//@include std_specs.rs
//@type src/expr/mod.rs enum Expr
//@type src/ruleset/rule.rs struct Rule
//@type src/parse/rule.rs struct RuleBuilder
//@type src/parse/unescape.rs enum ParseUnicodeError
//@type src/parse/unescape.rs enum UnescapeError
//@type src/parse/helpers.rs enum RevalParseError
//@type src/parse/mod.rs enum Error as ParseError
//@type src/parse/rule.rs const DESCRIPTION_META
//@type src/parse/rule.rs const NAME_META
pub mod rust_decimal { pub use super::DecError as Error; }
pub mod thiserror {}
/// what `unescape` returns (uninterpreted: the escape decoder is a boundary)
pub uninterp spec fn unescape_spec(s: Seq<char>) -> core::result::Result<String, UnescapeError>;
// `#[from]` on the variants of RevalParseError (thiserror): ASSUMED to generate the obvious From impls
impl vstd::std_specs::convert::FromSpecImpl<ParseIntError> for RevalParseError { open spec fn obeys_from_spec() -> bool { true } open spec fn from_spec(v: ParseIntError) -> RevalParseError { RevalParseError::ParsingInt(v) } }
impl From<ParseIntError> for RevalParseError { #[verifier::external_body] fn from(source: ParseIntError) -> RevalParseError { unimplemented!() } }
impl vstd::std_specs::convert::FromSpecImpl<ParseFloatError> for RevalParseError { open spec fn obeys_from_spec() -> bool { true } open spec fn from_spec(v: ParseFloatError) -> RevalParseError { RevalParseError::ParsingFloat(v) } }
impl From<ParseFloatError> for RevalParseError { #[verifier::external_body] fn from(source: ParseFloatError) -> RevalParseError { unimplemented!() } }
impl vstd::std_specs::convert::FromSpecImpl<DecError> for RevalParseError { open spec fn obeys_from_spec() -> bool { true } open spec fn from_spec(v: DecError) -> RevalParseError { RevalParseError::ParsingDecimal(v) } }
impl From<DecError> for RevalParseError { #[verifier::external_body] fn from(source: DecError) -> RevalParseError { unimplemented!() } }
impl vstd::std_specs::convert::FromSpecImpl<UnescapeError> for RevalParseError { open spec fn obeys_from_spec() -> bool { true } open spec fn from_spec(v: UnescapeError) -> RevalParseError { RevalParseError::UnescapingString(v) } }
impl From<UnescapeError> for RevalParseError { #[verifier::external_body] fn from(source: UnescapeError) -> RevalParseError { unimplemented!() } }

pub mod code {
use super::*;
//@include broadcasts.rs

// ---- boundaries (signatures only) ----
//@import unescape
//@import RuleBuilder::parse

// ---- verified: the token helpers the literal actions call ----
//@fn parse_int_value
//@fn parse_hex_int_value
//@fn parse_bin_int_value
//@fn parse_oct_int_value
//@fn parse_float_value
//@fn parse_decimal_value
//@fn parse_index_value
//@fn parse_string_literal

// ---- verified: constructors the actions call ----
//@fn Expr::value
//@fn Expr::none_value
//@fn Expr::func
//@fn Expr::reff
//@fn Expr::symbol
//@fn Expr::index
//@fn Expr::iif
//@fn Expr::not
//@fn Expr::neg
//@fn Expr::some
//@fn Expr::none
//@fn Expr::int
//@fn Expr::float
//@fn Expr::dec
//@fn Expr::datetime
//@fn Expr::duration
//@fn Expr::mult
//@fn Expr::div
//@fn Expr::rem
//@fn Expr::add
//@fn Expr::sub
//@fn Expr::eq
//@fn Expr::neq
//@fn Expr::gt
//@fn Expr::gte
//@fn Expr::lt
//@fn Expr::lte
//@fn Expr::and
//@fn Expr::or
//@fn Expr::bitwise_and
//@fn Expr::bitwise_or
//@fn Expr::bitwise_xor
//@fn Expr::contains
//@fn Expr::uppercase
//@fn Expr::lowercase
//@fn Expr::trim
//@fn Expr::round
//@fn Expr::floor
//@fn Expr::fract
//@fn Expr::year
//@fn Expr::month
//@fn Expr::week
//@fn Expr::day
//@fn Expr::hour
//@fn Expr::minute
//@fn Expr::second
//@fn <From<&str> for Value>::from
//@fn <From<usize> for Index>::from
//@fn <From<String> for Index>::from
//@fn <From<&str> for Index>::from
//@fn Rule::new
//@fn RuleBuilder::set_name
//@fn RuleBuilder::set_description
//@fn RuleBuilder::build

// ---- verified: every hand-written grammar action of src/reval.lalrpop ----
//@actions src/reval.lalrpop C06 skip=.into_iter().chain(

} // mod code

//@include sanity.rs

} // verus!
fn main() {}
