// Protocol lemmas (C13), in exec form.  serde's own drivers (`impl Serialize for Vec<T>`, for tuples, for maps, and the code
// `#[derive(Serialize)]` generates for structs and enum variants) are foreign code; what they do is documented: open the collector,
// feed the elements / fields / entries in order, stopping at the first error, then `end()`.  Each function below TRANSCRIBES one such
// driver (a model of foreign code, not code of the crate) and is verified against the contracts of the crate's real methods above,
// so that the statement's container clauses hold for every element type: "sequences and tuples keep their order, structs and
// string-keyed maps keep every entry, enum variants are tagged by name, a failure raised by the value's own Serialize is returned".

/// images of the first n items in order, or the first error
pub open spec fn ser_all<T: Serialize>(items: Seq<T>, n: nat) -> Result<Seq<Value>>
    decreases n,
{
    if n == 0 { Ok(Seq::<Value>::empty()) } else {
        match ser_all(items, (n - 1) as nat) {
            Err(e) => Err(e),
            Ok(s) => match items[n - 1].ser_spec() { Ok(v) => Ok(s.push(v)), Err(e) => Err(e) },
        }
    }
}

//@lemma ser.protocol_seq C13
pub fn drive_seq<T: Serialize>(items: &Vec<T>) -> (r: Result<Value>)
    ensures match ser_all(items@, items@.len()) { Ok(s) => r is Ok && r->Ok_0 is Vec && r->Ok_0->Vec_0@ == s, Err(e) => r == Err::<Value, Error>(e) },
{
    let mut seq = ValueSerializer.serialize_seq(Some(items.len()))?;
    let mut i: usize = 0;
    while i < items.len()
        invariant
            i <= items@.len(),
            ser_all(items@, i as nat) == Ok::<Seq<Value>, Error>(seq.vec@),
        decreases items@.len() - i,
    {
        let ghost before = seq.vec@;
        let e = SerializeSeq::serialize_element(&mut seq, &items[i]);
        proof { assert(ser_all(items@, (i + 1) as nat) == (match items@[i as int].ser_spec() { Ok(v) => Ok::<Seq<Value>, Error>(before.push(v)), Err(e) => Err::<Seq<Value>, Error>(e) })); }
        match e {
            Ok(()) => {}
            Err(err) => {
                proof { lemma_ser_all_err(items@, (i + 1) as nat, items@.len() as nat); }
                return Err(err);
            }
        }
        i = i + 1;
    }
    SerializeSeq::end(seq)
}

/// once a prefix fails, every longer prefix fails with the same error
pub proof fn lemma_ser_all_err<T: Serialize>(items: Seq<T>, k: nat, n: nat)
    requires k <= n, ser_all(items, k) is Err,
    ensures ser_all(items, n) == ser_all(items, k),
    decreases n,
{
    if n > k { lemma_ser_all_err(items, k, (n - 1) as nat); }
}

//@lemma ser.protocol_tuple C13
pub fn drive_tuple2<A: Serialize, B: Serialize>(a: &A, b: &B) -> (r: Result<Value>)
    ensures match (a.ser_spec(), b.ser_spec()) {
        (Ok(va), Ok(vb)) => r is Ok && r->Ok_0 is Vec && r->Ok_0->Vec_0@ == seq![va, vb],
        (Err(e), _) => r == Err::<Value, Error>(e),
        (Ok(_), Err(e)) => r == Err::<Value, Error>(e),
    },
{
    let mut t = ValueSerializer.serialize_tuple(2)?;
    SerializeTuple::serialize_element(&mut t, a)?;
    SerializeTuple::serialize_element(&mut t, b)?;
    let r = SerializeTuple::end(t);
    proof { if r is Ok { assert(r->Ok_0->Vec_0@ =~= seq![a.ser_spec()->Ok_0, b.ser_spec()->Ok_0]); } }
    r
}

//@lemma ser.protocol_tuple_struct C13
pub fn drive_tuple_struct2<A: Serialize, B: Serialize>(name: &'static str, a: &A, b: &B) -> (r: Result<Value>)
    ensures match (a.ser_spec(), b.ser_spec()) {
        (Ok(va), Ok(vb)) => r is Ok && r->Ok_0 is Vec && r->Ok_0->Vec_0@ == seq![va, vb],
        (Err(e), _) => r == Err::<Value, Error>(e),
        (Ok(_), Err(e)) => r == Err::<Value, Error>(e),
    },
{
    let mut t = ValueSerializer.serialize_tuple_struct(name, 2)?;
    SerializeTupleStruct::serialize_field(&mut t, a)?;
    SerializeTupleStruct::serialize_field(&mut t, b)?;
    let r = SerializeTupleStruct::end(t);
    proof { if r is Ok { assert(r->Ok_0->Vec_0@ =~= seq![a.ser_spec()->Ok_0, b.ser_spec()->Ok_0]); } }
    r
}

//@lemma ser.protocol_struct C13
pub fn drive_struct2<A: Serialize, B: Serialize>(name: &'static str, k1: &'static str, a: &A, k2: &'static str, b: &B) -> (r: Result<Value>)
    ensures match (a.ser_spec(), b.ser_spec()) {
        (Ok(va), Ok(vb)) => r is Ok && r->Ok_0 is Map && r->Ok_0->Map_0@ == Map::<String, Value>::empty().insert(string_of(k1@), va).insert(string_of(k2@), vb),
        (Err(e), _) => r == Err::<Value, Error>(e),
        (Ok(_), Err(e)) => r == Err::<Value, Error>(e),
    },
{
    let mut s = ValueSerializer.serialize_struct(name, 2)?;
    SerializeStruct::serialize_field(&mut s, k1, a)?;
    SerializeStruct::serialize_field(&mut s, k2, b)?;
    SerializeStruct::end(s)
}

/// a map entry: an unsupported key (anything `StringSerializer` refuses) is an error; otherwise the entry is kept under its key
//@lemma ser.protocol_map_entry C13
pub fn drive_map1<K: Serialize, V: Serialize>(k: &K, v: &V) -> (r: Result<Value>)
    ensures match k.ser_key_spec() {
        Err(e) => r == Err::<Value, Error>(e),
        Ok(key) => match v.ser_spec() {
            Ok(val) => r is Ok && r->Ok_0 is Map && r->Ok_0->Map_0@ == Map::<String, Value>::empty().insert(key, val),
            Err(e) => r == Err::<Value, Error>(e),
        },
    },
{
    let mut m = ValueSerializer.serialize_map(Some(1))?;
    SerializeMap::serialize_entry(&mut m, k, v)?;
    SerializeMap::end(m)
}

//@lemma ser.protocol_tuple_variant C13
pub fn drive_tuple_variant2<A: Serialize, B: Serialize>(name: &'static str, idx: u32, variant: &'static str, a: &A, b: &B) -> (r: Result<Value>)
    ensures match (a.ser_spec(), b.ser_spec()) {
        (Ok(va), Ok(vb)) => r is Ok && r->Ok_0 is Map && r->Ok_0->Map_0@.dom() =~= set![string_of(variant@)]
            && r->Ok_0->Map_0@[string_of(variant@)] is Vec && r->Ok_0->Map_0@[string_of(variant@)]->Vec_0@ == seq![va, vb],
        (Err(e), _) => r == Err::<Value, Error>(e),
        (Ok(_), Err(e)) => r == Err::<Value, Error>(e),
    },
{
    broadcast use axiom_string_ext_auto;
    let mut t = ValueSerializer.serialize_tuple_variant(name, idx, variant, 2)?;
    let ghost tag = t.name;
    proof { assert(string_of(variant@)@ == variant@); assert(tag == string_of(variant@)); }
    SerializeTupleVariant::serialize_field(&mut t, a)?;
    SerializeTupleVariant::serialize_field(&mut t, b)?;
    let ghost fields = t.vec@;
    let r = SerializeTupleVariant::end(t);
    proof { if r is Ok { assert(fields =~= seq![a.ser_spec()->Ok_0, b.ser_spec()->Ok_0]); } }
    r
}

//@lemma ser.protocol_struct_variant C13
pub fn drive_struct_variant1<A: Serialize>(name: &'static str, idx: u32, variant: &'static str, k1: &'static str, a: &A) -> (r: Result<Value>)
    ensures match a.ser_spec() {
        Ok(va) => r is Ok && r->Ok_0 is Map && r->Ok_0->Map_0@.dom() =~= set![string_of(variant@)]
            && r->Ok_0->Map_0@[string_of(variant@)] is Map && r->Ok_0->Map_0@[string_of(variant@)]->Map_0@ == Map::<String, Value>::empty().insert(string_of(k1@), va),
        Err(e) => r == Err::<Value, Error>(e),
    },
{
    broadcast use axiom_string_ext_auto;
    let mut s = ValueSerializer.serialize_struct_variant(name, idx, variant, 1)?;
    let ghost tag = s.name;
    proof { assert(string_of(variant@)@ == variant@); assert(tag == string_of(variant@)); }
    SerializeStructVariant::serialize_field(&mut s, k1, a)?;
    SerializeStructVariant::end(s)
}
