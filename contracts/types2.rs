// ---- expression tree, ruleset and registry types, copied verbatim from /repo ------------------------------
//@type src/expr/mod.rs enum Expr
//@type src/function.rs type FunctionResult
//@type src/function.rs type FunctionCache
//@type src/function.rs struct UserFunctions
//@type src/symbol.rs struct Symbols
//@type src/ruleset/rule.rs struct Rule
//@type src/ruleset/mod.rs struct RuleSet
//@type src/expr/eval/context.rs struct EvalContext
