// ---- expression tree, ruleset and registry types, copied verbatim from /repo ------------------------------
//@type src/expr/mod.rs enum Expr
//@type src/function.rs type FunctionResult
//@type src/function.rs type FunctionCache
//@type src/function.rs struct UserFunctions
//@type src/symbol.rs struct Symbols
//@type src/ruleset/rule.rs struct Rule
//@type src/ruleset/mod.rs struct RuleSet
//@type src/expr/eval/context.rs struct EvalContext

// derived PartialEq / Clone on Expr (ASSUMED structural; only their existence matters to the verified code today)
pub uninterp spec fn expr_eq(a: Expr, b: Expr) -> bool;
impl vstd::std_specs::cmp::PartialEqSpecImpl for Expr {
    open spec fn obeys_eq_spec() -> bool { true }
    open spec fn eq_spec(&self, other: &Expr) -> bool { expr_eq(*self, *other) }
}
impl PartialEq for Expr {
    #[verifier::external_body]
    fn eq(&self, other: &Expr) -> bool { unimplemented!() }
}
impl Clone for Expr {
    #[verifier::external_body]
    fn clone(&self) -> (r: Self) ensures r == *self { unimplemented!() }
}
