#![allow(unused)]
#![feature(pattern)]
#![feature(allocator_api)]
#![allow(non_shorthand_field_patterns)]
use vstd::prelude::*;
use vstd::std_specs::ops::*;
use vstd::std_specs::cmp::*;
use std::collections::{BTreeMap, HashMap};
use core::str::FromStr;
use std::result;
use std::num::TryFromIntError;

verus! {

//@include standins.rs
//@include types.rs
//@include sem_val.rs
//@include std_specs.rs

pub mod code {
use super::*;
//@include broadcasts.rs

//@fn Error::unexpected_val_type
//@fn <From<bool> for Value>::from
//@fn <From<i128> for Value>::from
//@fn <From<f64> for Value>::from
//@fn <TryFrom<Value> for bool>::try_from
//@fn <From<String> for Value>::from
//@fn <From<&str> for Value>::from
//@fn <From<i64> for Value>::from
//@fn <From<i32> for Value>::from
//@fn <From<i16> for Value>::from
//@fn <From<i8> for Value>::from
//@fn <From<u64> for Value>::from
//@fn <From<u32> for Value>::from
//@fn <From<u16> for Value>::from
//@fn <From<u8> for Value>::from
//@fn <From<usize> for Value>::from
//@fn <From<f32> for Value>::from
//@fn <From<Decimal> for Value>::from
//@fn <From<DateTime<Utc>> for Value>::from
//@fn <From<TimeDelta> for Value>::from
//@fn <From<Option<Value>> for Value>::from
//@fn <TryFrom<Value> for String>::try_from
//@fn <TryFrom<Value> for i128>::try_from
//@fn <TryFrom<Value> for f64>::try_from
//@fn <TryFrom<Value> for Decimal>::try_from
//@fn <TryFrom<Value> for DateTime<Utc>>::try_from
//@fn <TryFrom<Value> for TimeDelta>::try_from
//@fn <TryFrom<Value> for i64>::try_from
//@fn <TryFrom<Value> for i32>::try_from
//@fn <TryFrom<Value> for i16>::try_from
//@fn <TryFrom<Value> for i8>::try_from
//@fn <TryFrom<Value> for u128>::try_from
//@fn <TryFrom<Value> for u64>::try_from
//@fn <TryFrom<Value> for u32>::try_from
//@fn <TryFrom<Value> for u16>::try_from
//@fn <TryFrom<Value> for u8>::try_from

//@fn <From<Vec<V>> for Value>::from
//@fn <TryFrom<Value> for Vec<V>>::try_from
//@fn <From<BTreeMap<K, V>> for Value>::from
//@fn <From<HashMap<K, V>> for Value>::from
//@fn <TryFrom<Value> for BTreeMap<String, Value>>::try_from
//@fn <TryFrom<Value> for HashMap<String, Value>>::try_from
//@fn <TryFrom<Value> for BTreeMap<String, V>>::try_from
//@fn <TryFrom<Value> for HashMap<String, V>>::try_from

//@include convert_lemmas.rs

} // mod code

//@include sanity.rs

} // verus!
fn main() {}
