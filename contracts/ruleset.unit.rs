#![allow(unused)]
#![feature(pattern)]
#![feature(allocator_api)]
#![allow(non_shorthand_field_patterns)]
use vstd::prelude::*;
use vstd::std_specs::ops::*;
use vstd::std_specs::cmp::*;
use std::collections::BTreeMap;
use core::str::FromStr;
use std::result;
use std::num::TryFromIntError;
use vstd::std_specs::iter::IteratorSpec;

verus! {

//@include standins.rs
//@include types.rs
//@include sem_val.rs
//@include std_specs.rs
//@include types2.rs
//@type src/ruleset/mod.rs struct Outcome
//@type src/ruleset/builder.rs struct Builder
//@type src/value/ser.rs struct ValueSerializer
//@type src/expr/keywords.rs const KEYWORDS
//@include standins_fn.rs
//@include sem_expr.rs
//@include sem_ruleset.rs

pub mod code {
use super::*;
//@include broadcasts_fn.rs

// ---- proved in unit eval_rec from the same contract text ----
//@import Expr::eval_rule

// ---- verified here ----
//@fn Rule::expr
//@fn Rule::name
//@fn RuleSet::evaluate_value
//@fn RuleSet::evaluate
//@fn RuleSet::call_function
//@fn RuleSet::get_symbol
//@fn UserFunctions::get
//@fn call_function
//@fn UserFunctions::call
//@fn Symbols::get
//@fn is_reserved_keyword
//@fn is_valid_identifier
//@fn UserFunctions::add_boxed_function
//@fn UserFunctions::add_function
//@fn ruleset
//@fn Builder::with_rule
//@alias src/function.rs BoxedFunction
//@fn Builder::with_rules
//@fn Builder::with_functions
//@fn Builder::with_function
//@fn Symbols::insert
//@fn Symbols::append
//@fn Builder::with_symbols
//@fn Builder::with_symbol
//@fn Builder::build

} // mod code

//@include sanity.rs

} // verus!
fn main() {}
