#![allow(unused)]
#![feature(pattern)]
#![feature(allocator_api)]
#![allow(non_shorthand_field_patterns)]
use vstd::prelude::*;
use vstd::std_specs::ops::*;
use vstd::std_specs::cmp::*;
use std::collections::{BTreeMap, HashMap};
use core::str::FromStr;
use core::fmt::Display;
use std::result;
use std::num::TryFromIntError;

verus! {

//@include standins.rs
//@include types.rs
//@include sem_val.rs
//@include std_specs.rs
//@type src/value/ser.rs struct ValueSerializer
//@type src/value/ser.rs struct StringSerializer
//@type src/value/ser.rs struct SerializeVecValue
//@type src/value/ser.rs struct SerializeTupleVariantValue
//@type src/value/ser.rs struct SerializeMapValue
//@type src/value/ser.rs struct SerializeStructVariantValue
//@include standins_ser.rs
//@include sem_ser.rs

pub mod code {
use super::*;
//@include broadcasts_ser.rs

//@fn Error::ser
//@fn not_a_string
//@fn <SerError for Error>::custom

//@impl_open src/value/ser.rs Serializer for ValueSerializer
//@fn <Serializer for ValueSerializer>::serialize_bool
//@fn <Serializer for ValueSerializer>::serialize_i8
//@fn <Serializer for ValueSerializer>::serialize_i16
//@fn <Serializer for ValueSerializer>::serialize_i32
//@fn <Serializer for ValueSerializer>::serialize_i64
//@fn <Serializer for ValueSerializer>::serialize_i128
//@fn <Serializer for ValueSerializer>::serialize_u8
//@fn <Serializer for ValueSerializer>::serialize_u16
//@fn <Serializer for ValueSerializer>::serialize_u32
//@fn <Serializer for ValueSerializer>::serialize_u64
//@fn <Serializer for ValueSerializer>::serialize_u128
//@fn <Serializer for ValueSerializer>::serialize_f64
//@fn <Serializer for ValueSerializer>::serialize_char
//@fn <Serializer for ValueSerializer>::serialize_str
//@fn <Serializer for ValueSerializer>::serialize_none
//@fn <Serializer for ValueSerializer>::serialize_some
//@fn <Serializer for ValueSerializer>::serialize_unit
//@fn <Serializer for ValueSerializer>::serialize_unit_struct
//@fn <Serializer for ValueSerializer>::serialize_unit_variant
//@fn <Serializer for ValueSerializer>::serialize_newtype_struct
//@fn <Serializer for ValueSerializer>::serialize_newtype_variant
//@fn <Serializer for ValueSerializer>::serialize_seq
//@fn <Serializer for ValueSerializer>::serialize_tuple
//@fn <Serializer for ValueSerializer>::serialize_tuple_struct
//@fn <Serializer for ValueSerializer>::serialize_tuple_variant
//@fn <Serializer for ValueSerializer>::serialize_map
//@fn <Serializer for ValueSerializer>::serialize_struct
//@fn <Serializer for ValueSerializer>::serialize_struct_variant
//@impl_close

//@impl_open src/value/ser.rs SerializeSeq for SerializeVecValue
    // C13 seq.element / seq.end
    open spec fn element_post<T: ?Sized + Serialize>(pre: Self, post: Self, value: &T, r: Result<()>) -> bool { match value.ser_spec() { Ok(v) => r is Ok && post.vec@ == pre.vec@.push(v), Err(e) => r == Err::<(), Error>(e) && post.vec@ == pre.vec@ } }
    open spec fn end_post(pre: Self, r: Result<Value>) -> bool { r == Ok::<Value, Error>(Value::Vec(pre.vec)) }
//@fn <SerializeSeq for SerializeVecValue>::serialize_element
//@fn <SerializeSeq for SerializeVecValue>::end
//@impl_close
//@impl_open src/value/ser.rs SerializeTuple for SerializeVecValue
    // C13 tuple.element / tuple.end
    open spec fn element_post<T: ?Sized + Serialize>(pre: Self, post: Self, value: &T, r: Result<()>) -> bool { match value.ser_spec() { Ok(v) => r is Ok && post.vec@ == pre.vec@.push(v), Err(e) => r == Err::<(), Error>(e) && post.vec@ == pre.vec@ } }
    open spec fn end_post(pre: Self, r: Result<Value>) -> bool { r == Ok::<Value, Error>(Value::Vec(pre.vec)) }
//@fn <SerializeTuple for SerializeVecValue>::serialize_element
//@fn <SerializeTuple for SerializeVecValue>::end
//@impl_close
//@impl_open src/value/ser.rs SerializeTupleStruct for SerializeVecValue
    // C13 tuple_struct.field / tuple_struct.end
    open spec fn field_post<T: ?Sized + Serialize>(pre: Self, post: Self, value: &T, r: Result<()>) -> bool { match value.ser_spec() { Ok(v) => r is Ok && post.vec@ == pre.vec@.push(v), Err(e) => r == Err::<(), Error>(e) && post.vec@ == pre.vec@ } }
    open spec fn end_post(pre: Self, r: Result<Value>) -> bool { r == Ok::<Value, Error>(Value::Vec(pre.vec)) }
//@fn <SerializeTupleStruct for SerializeVecValue>::serialize_field
//@fn <SerializeTupleStruct for SerializeVecValue>::end
//@impl_close
//@impl_open src/value/ser.rs SerializeTupleVariant for SerializeTupleVariantValue
    // C13 tuple_variant.field / tuple_variant.end: the image is { variant name: [fields in order] }
    open spec fn field_post<T: ?Sized + Serialize>(pre: Self, post: Self, value: &T, r: Result<()>) -> bool { (match value.ser_spec() { Ok(v) => r is Ok && post.vec@ == pre.vec@.push(v), Err(e) => r == Err::<(), Error>(e) && post.vec@ == pre.vec@ }) && post.name == pre.name }
    open spec fn end_post(pre: Self, r: Result<Value>) -> bool { r is Ok && r->Ok_0 is Map && r->Ok_0->Map_0@ == Map::<String, Value>::empty().insert(pre.name, Value::Vec(pre.vec)) }
//@fn <SerializeTupleVariant for SerializeTupleVariantValue>::serialize_field
//@fn <SerializeTupleVariant for SerializeTupleVariantValue>::end
//@impl_close

//@impl_open src/value/ser.rs SerializeMap for SerializeMapValue
    // C13 map.key / map.value / map.entry / map.end
    open spec fn key_pending(&self) -> bool { self.next_key is Some }
    open spec fn key_post<T: ?Sized + Serialize>(pre: Self, post: Self, key: &T, r: Result<()>) -> bool {
        match key.ser_key_spec() { Ok(k) => r is Ok && post.next_key == Some(k) && post.map@ == pre.map@, Err(e) => r == Err::<(), Error>(e) && post.map@ == pre.map@ }
    }
    open spec fn value_post<T: ?Sized + Serialize>(pre: Self, post: Self, value: &T, r: Result<()>) -> bool {
        match value.ser_spec() { Ok(v) => r is Ok && post.map@ == pre.map@.insert(pre.next_key->Some_0, v) && post.next_key is None, Err(e) => r == Err::<(), Error>(e) && post.map@ == pre.map@ }
    }
    open spec fn entry_post<K: ?Sized + Serialize, V: ?Sized + Serialize>(pre: Self, post: Self, key: &K, value: &V, r: Result<()>) -> bool {
        match key.ser_key_spec() {
            Err(e) => r == Err::<(), Error>(e) && post.map@ == pre.map@,
            Ok(k) => match value.ser_spec() {
                Ok(v) => r is Ok && post.map@ == pre.map@.insert(k, v) && post.next_key is None,
                Err(e) => r == Err::<(), Error>(e) && post.map@ == pre.map@,
            },
        }
    }
    open spec fn end_post(pre: Self, r: Result<Value>) -> bool { r == Ok::<Value, Error>(Value::Map(pre.map)) }
//@fn <SerializeMap for SerializeMapValue>::serialize_key
//@fn <SerializeMap for SerializeMapValue>::serialize_value
//@default_if_absent <SerializeMap for SerializeMapValue>::serialize_entry
    // serde's PROVIDED method `SerializeMap::serialize_entry`, which the crate does not override: its default body transcribed from
    // serde (`self.serialize_key(key)?; self.serialize_value(value)`).  A model of foreign code, not code of the crate; verified
    // against the two real methods above so that `SerializeStruct::serialize_field` (which calls it) can be checked.
    fn serialize_entry<K: ?Sized + Serialize, V: ?Sized + Serialize>(&mut self, key: &K, value: &V) -> (r: Result<()>)
    {
        self.serialize_key(key)?;
        self.serialize_value(value)
    }
//@end_default
//@fn <SerializeMap for SerializeMapValue>::end
//@impl_close
//@impl_open src/value/ser.rs SerializeStruct for SerializeMapValue
    // C13 struct.field / struct.end: every field is kept under its name
    open spec fn field_post<T: ?Sized + Serialize>(pre: Self, post: Self, key: &'static str, value: &T, r: Result<()>) -> bool { match value.ser_spec() { Ok(v) => r is Ok && post.map@ == pre.map@.insert(string_of(key@), v), Err(e) => r == Err::<(), Error>(e) && post.map@ == pre.map@ } }
    open spec fn end_post(pre: Self, r: Result<Value>) -> bool { r == Ok::<Value, Error>(Value::Map(pre.map)) }
//@fn <SerializeStruct for SerializeMapValue>::serialize_field
//@fn <SerializeStruct for SerializeMapValue>::end
//@impl_close
//@impl_open src/value/ser.rs SerializeStructVariant for SerializeStructVariantValue
    // C13 struct_variant.field / struct_variant.end: the image is { variant name: { fields } }
    open spec fn field_post<T: ?Sized + Serialize>(pre: Self, post: Self, key: &'static str, value: &T, r: Result<()>) -> bool { (match value.ser_spec() { Ok(v) => r is Ok && post.map@ == pre.map@.insert(string_of(key@), v), Err(e) => r == Err::<(), Error>(e) && post.map@ == pre.map@ }) && post.name == pre.name }
    open spec fn end_post(pre: Self, r: Result<Value>) -> bool { r is Ok && r->Ok_0 is Map && r->Ok_0->Map_0@ == Map::<String, Value>::empty().insert(pre.name, Value::Map(pre.map)) }
//@fn <SerializeStructVariant for SerializeStructVariantValue>::serialize_field
//@fn <SerializeStructVariant for SerializeStructVariantValue>::end
//@impl_close

//@impl_open src/value/ser.rs Serializer for StringSerializer
//@fn <Serializer for StringSerializer>::serialize_bool
//@fn <Serializer for StringSerializer>::serialize_i8
//@fn <Serializer for StringSerializer>::serialize_i16
//@fn <Serializer for StringSerializer>::serialize_i32
//@fn <Serializer for StringSerializer>::serialize_i64
//@fn <Serializer for StringSerializer>::serialize_u8
//@fn <Serializer for StringSerializer>::serialize_u16
//@fn <Serializer for StringSerializer>::serialize_u32
//@fn <Serializer for StringSerializer>::serialize_u64
//@fn <Serializer for StringSerializer>::serialize_f64
//@fn <Serializer for StringSerializer>::serialize_char
//@fn <Serializer for StringSerializer>::serialize_str
//@fn <Serializer for StringSerializer>::serialize_none
//@fn <Serializer for StringSerializer>::serialize_some
//@fn <Serializer for StringSerializer>::serialize_unit
//@fn <Serializer for StringSerializer>::serialize_unit_struct
//@fn <Serializer for StringSerializer>::serialize_unit_variant
//@fn <Serializer for StringSerializer>::serialize_newtype_struct
//@fn <Serializer for StringSerializer>::serialize_newtype_variant
//@fn <Serializer for StringSerializer>::serialize_seq
//@fn <Serializer for StringSerializer>::serialize_tuple
//@fn <Serializer for StringSerializer>::serialize_tuple_struct
//@fn <Serializer for StringSerializer>::serialize_tuple_variant
//@fn <Serializer for StringSerializer>::serialize_map
//@fn <Serializer for StringSerializer>::serialize_struct
//@fn <Serializer for StringSerializer>::serialize_struct_variant
//@impl_close

//@include ser_lemmas.rs

} // mod code

//@include sanity.rs

} // verus!
fn main() {}
