
// =================================================================================================
// K3: validation of ASSUMED dependency contracts against the real dependency code (Kani, loop-free,
// full symbolic domain).  Appended to a scratch copy of /repo/src/lib.rs.  These harnesses do not
// decide any property; they shrink the trusted base: each one checks a fact that the stand-in
// contracts (contracts/standins.rs) or the replay oracle take for granted.
// =================================================================================================
#[cfg(kani)]
mod verif_kani_deps {
    use chrono::{DateTime, TimeDelta, Utc};
    use rust_decimal::prelude::*;

    /// num_traits: `f64::to_i128` is None exactly when the value is NaN / infinite / outside [-2^127, 2^127)
    /// (the "out of range => Err" clause int.float_range of C01 rests on this)
    #[kani::proof]
    fn dep_f64_to_i128_range() {
        let f: f64 = kani::any();
        let r = f.to_i128();
        let fits = f >= -170141183460469231731687303715884105728.0 && f < 170141183460469231731687303715884105728.0;
        assert!(r.is_some() == fits);
        if let Some(i) = r {
            // truncation toward zero: |i - f| < 1
            let back = i as f64;
            assert!((back - f).abs() <= 1.0 || f.abs() >= 9007199254740992.0);
        }
    }

    /// chrono: TimeDelta::try_seconds / try_minutes / ... never panic and are None exactly outside +-i64::MAX/1000 seconds
    #[kani::proof]
    fn dep_timedelta_ctor_range() {
        let s: i64 = kani::any();
        let max = i64::MAX / 1000;
        assert!(TimeDelta::try_seconds(s).is_some() == (s >= -max && s <= max));
        assert!(TimeDelta::try_minutes(s).is_some() == (s >= -(max / 60) && s <= max / 60));
        assert!(TimeDelta::try_hours(s).is_some() == (s >= -(max / 3600) && s <= max / 3600));
        assert!(TimeDelta::try_days(s).is_some() == (s >= -(max / 86400) && s <= max / 86400));
        assert!(TimeDelta::try_weeks(s).is_some() == (s >= -(max / 604800) && s <= max / 604800));
    }

    /// chrono: checked_sub / checked_add on TimeDelta never panic (the panicking operators are `expect` on these)
    #[kani::proof]
    fn dep_timedelta_checked_ops() {
        let a: i64 = kani::any();
        let b: i64 = kani::any();
        if let (Some(x), Some(y)) = (TimeDelta::try_seconds(a), TimeDelta::try_seconds(b)) {
            let _ = x.checked_sub(&y);
            let _ = x.checked_add(&y);
        }
    }

    /// chrono: DateTime::from_timestamp never panics (out-of-range seconds give None)
    #[kani::proof]
    fn dep_from_timestamp_total() {
        let s: i64 = kani::any();
        let r: Option<DateTime<Utc>> = DateTime::from_timestamp(s, 0);
        if s >= -8334601228800 && s <= 8210266876799 {
            assert!(r.is_some());
        }
        core::mem::forget(r);
    }

    /// rust_decimal: Decimal::from_i128 is None exactly outside +-(2^96 - 1); never panics
    #[kani::proof]
    fn dep_decimal_from_i128_range() {
        let i: i128 = kani::any();
        let r = Decimal::from_i128(i);
        let lim: i128 = 79228162514264337593543950335;
        assert!(r.is_some() == (i >= -lim && i <= lim));
    }
}
