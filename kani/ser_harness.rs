
// =================================================================================================
// C13 harnesses (Kani).  This module is APPENDED to a scratch copy of /repo/src/value/ser.rs on every
// run, so it exercises the real `impl Serializer for ValueSerializer` through the real serde traits.
// Results are `mem::forget`-ed: dropping a `Value` instantiates recursive drop glue over Vec/BTreeMap,
// which CBMC cannot unwind (measured; DESIGN.md 2.11).
//
// scalar_*  : loop-free, the whole value domain is symbolic  => complete proofs
// shape_*   : one fixed container shape with symbolic leaves  => BOUNDED (by shape), labelled so
// =================================================================================================
#[cfg(kani)]
mod verif_kani {
    use super::*;
    use serde::ser::{SerializeMap as _, SerializeSeq as _};
    use serde::{Serialize, Serializer};

    macro_rules! scalar_int {
        ($name:ident, $t:ty) => {
            #[kani::proof]
            fn $name() {
                let v: $t = kani::any();
                let r = v.serialize(ValueSerializer);
                match &r {
                    Ok(Value::Int(i)) => assert!(*i == v as i128),
                    _ => assert!(false, "integer must serialize to Value::Int with the same numeric value"),
                }
                core::mem::forget(r);
            }
        };
    }
    scalar_int!(scalar_i8, i8);
    scalar_int!(scalar_i16, i16);
    scalar_int!(scalar_i32, i32);
    scalar_int!(scalar_i64, i64);
    scalar_int!(scalar_i128, i128);
    scalar_int!(scalar_u8, u8);
    scalar_int!(scalar_u16, u16);
    scalar_int!(scalar_u32, u32);
    scalar_int!(scalar_u64, u64);

    /// u128: exact value when it fits Value::Int, an error (never an altered number) above i128::MAX
    #[kani::proof]
    fn scalar_u128() {
        let v: u128 = kani::any();
        let r = v.serialize(ValueSerializer);
        match &r {
            Ok(Value::Int(i)) => assert!(*i >= 0 && (*i as u128) == v),
            Ok(_) => assert!(false, "u128 must not change kind"),
            Err(_) => assert!(v > i128::MAX as u128, "in-range u128 must not fail"),
        }
        core::mem::forget(r);
    }

    #[kani::proof]
    fn scalar_bool() {
        let v: bool = kani::any();
        let r = v.serialize(ValueSerializer);
        match &r {
            Ok(Value::Bool(b)) => assert!(*b == v),
            _ => assert!(false),
        }
        core::mem::forget(r);
    }

    #[kani::proof]
    fn scalar_f64() {
        let v: f64 = kani::any();
        let r = v.serialize(ValueSerializer);
        match &r {
            Ok(Value::Float(f)) => assert!(f.to_bits() == v.to_bits()),
            _ => assert!(false),
        }
        core::mem::forget(r);
    }

    #[kani::proof]
    fn scalar_f32() {
        let v: f32 = kani::any();
        let r = v.serialize(ValueSerializer);
        match &r {
            // exact widening: NaN payloads aside, the f64 image converts back to the same f32
            Ok(Value::Float(f)) => assert!((v.is_nan() && f.is_nan()) || (*f as f32).to_bits() == v.to_bits()),
            _ => assert!(false),
        }
        core::mem::forget(r);
    }

    #[kani::proof]
    fn scalar_unit_and_none() {
        let r = ().serialize(ValueSerializer);
        assert!(matches!(&r, Ok(Value::None)));
        core::mem::forget(r);
        let o: Option<u8> = None;
        let r = o.serialize(ValueSerializer);
        assert!(matches!(&r, Ok(Value::None)));
        core::mem::forget(r);
    }

    #[derive(Serialize)]
    struct UnitStruct;
    #[derive(Serialize)]
    struct Newtype(u32);
    #[derive(Serialize)]
    enum E {
        Unit,
        New(u16),
    }

    #[kani::proof]
    fn scalar_unit_struct() {
        let r = UnitStruct.serialize(ValueSerializer);
        assert!(matches!(&r, Ok(Value::None)));
        core::mem::forget(r);
    }

    /// options collapse to the inner value; newtype structs to the inner value
    #[kani::proof]
    fn scalar_some_and_newtype() {
        let v: i64 = kani::any();
        let r = Some(v).serialize(ValueSerializer);
        match &r {
            Ok(Value::Int(i)) => assert!(*i == v as i128),
            _ => assert!(false),
        }
        core::mem::forget(r);
        let w: u32 = kani::any();
        let r = Newtype(w).serialize(ValueSerializer);
        match &r {
            Ok(Value::Int(i)) => assert!(*i == w as i128),
            _ => assert!(false),
        }
        core::mem::forget(r);
    }

    /// a Serialize impl that fails through S::Error::custom yields Err (never the todo!() panic)
    struct Fails;
    impl Serialize for Fails {
        fn serialize<S: Serializer>(&self, _s: S) -> core::result::Result<S::Ok, S::Error> {
            Err(serde::ser::Error::custom("boom"))
        }
    }
    #[kani::proof]
    #[kani::unwind(40)]
    fn shape_custom_error() {
        let r = Fails.serialize(ValueSerializer);
        assert!(r.is_err());
        core::mem::forget(r);
    }

    /// 2-element sequence / tuple: order kept, leaves exact   (BOUNDED: fixed length 2)
    #[kani::proof]
    #[kani::unwind(8)]
    fn shape_tuple2() {
        let a: u8 = kani::any();
        let b: bool = kani::any();
        let r = (a, b).serialize(ValueSerializer);
        match &r {
            Ok(Value::Vec(items)) => {
                assert!(items.len() == 2);
                assert!(matches!(&items[0], Value::Int(i) if *i == a as i128));
                assert!(matches!(&items[1], Value::Bool(x) if *x == b));
            }
            _ => assert!(false),
        }
        core::mem::forget(r);
    }

}
