//! reval-replay: run concrete inputs through the REAL crate and compare with the executable mirror of the oracle.
//!
//!   reval-replay <family>...          families: ops compose lazy ruleset builder convert
//!
//! Prints one JSON object per failing case (at most MAX_PER_FAMILY per family) and a final summary line.
//! Bounds (stated in the evidence): operand pool of ~50 boundary values, expression depth <= 2 (ops: 1),
//! rulesets of <= 3 rules, builder sequences of <= 4 calls.

mod model;

use async_trait::async_trait;
use chrono::{DateTime, TimeDelta, Utc};
use model::*;
use reval::expr::{Expr, Index};
use reval::prelude::*;
use rust_decimal::Decimal;
use std::collections::BTreeMap;
use std::future::Future;
use std::panic::{catch_unwind, AssertUnwindSafe};
use std::pin::Pin;
use std::sync::{Arc, Mutex};
use std::task::{Context, Poll, RawWaker, RawWakerVTable, Waker};

const MAX_PER_FAMILY: usize = 6;

// ---- minimal executor -----------------------------------------------------------------------------------
fn noop_waker() -> Waker {
    fn clone(_: *const ()) -> RawWaker { RawWaker::new(std::ptr::null(), &VTABLE) }
    fn noop(_: *const ()) {}
    static VTABLE: RawWakerVTable = RawWakerVTable::new(clone, noop, noop, noop);
    unsafe { Waker::from_raw(RawWaker::new(std::ptr::null(), &VTABLE)) }
}
fn block_on<F: Future>(f: F) -> F::Output {
    let mut f = Box::pin(f);
    let w = noop_waker();
    let mut cx = Context::from_waker(&w);
    loop {
        if let Poll::Ready(v) = Pin::as_mut(&mut f).poll(&mut cx) {
            return v;
        }
    }
}

// ---- reporting --------------------------------------------------------------------------------------------
struct Report {
    family: &'static str,
    cases: usize,
    failures: Vec<String>,
}
fn jstr(s: &str) -> String {
    let mut o = String::from("\"");
    for c in s.chars() {
        match c {
            '"' => o.push_str("\\\""),
            '\\' => o.push_str("\\\\"),
            '\n' => o.push_str("\\n"),
            '\t' => o.push_str("\\t"),
            c if (c as u32) < 0x20 => o.push_str(&format!("\\u{:04x}", c as u32)),
            c => o.push(c),
        }
    }
    o.push('"');
    o
}
impl Report {
    fn new(family: &'static str) -> Self { Report { family, cases: 0, failures: vec![] } }
    fn fail(&mut self, tags: &[&str], clause_hint: &str, input: &str, observed: &str, expected: &str) {
        if self.failures.len() < MAX_PER_FAMILY * 8 {
            self.failures.push(format!(
                "{{\"family\":{},\"tags\":[{}],\"hint\":{},\"input\":{},\"observed\":{},\"expected\":{}}}",
                jstr(self.family),
                tags.iter().map(|t| jstr(t)).collect::<Vec<_>>().join(","),
                jstr(clause_hint), jstr(input), jstr(observed), jstr(expected)
            ));
        }
    }
    fn finish(self) {
        for f in &self.failures {
            println!("{f}");
        }
        println!("{{\"summary\":{},\"cases\":{},\"failures\":{}}}", jstr(self.family), self.cases, self.failures.len());
    }
}

// ---- pools ----------------------------------------------------------------------------------------------------
fn dec(s: &str) -> Value { Value::Decimal(s.parse::<Decimal>().unwrap()) }
fn dt(secs: i64) -> Value { Value::DateTime(DateTime::from_timestamp(secs, 0).unwrap()) }
fn dur(secs: i64) -> Value { Value::Duration(TimeDelta::try_seconds(secs).unwrap()) }

fn pool() -> Vec<Value> {
    let mut m1 = BTreeMap::new();
    m1.insert("a".to_string(), Value::Int(1));
    m1.insert("facts".to_string(), Value::Int(7));
    m1.insert("A".to_string(), Value::None);
    vec![
        Value::None,
        Value::Int(0), Value::Int(1), Value::Int(-1), Value::Int(2), Value::Int(12), Value::Int(0b0100_1000),
        Value::Int(i128::MAX), Value::Int(i128::MIN), Value::Int(i128::MAX - 1), Value::Int(i128::MIN + 1),
        Value::Int(i64::MAX as i128), Value::Int(i64::MAX as i128 + 1), Value::Int(i64::MIN as i128 - 1),
        Value::Int((1i128 << 64) + 1438226773), Value::Int(1i128 << 96), Value::Int(8210266876799), Value::Int(1438226773),
        Value::Float(0.0), Value::Float(-0.0), Value::Float(1.0), Value::Float(2.5), Value::Float(-2.5), Value::Float(0.5), Value::Float(-0.5), Value::Float(3.5), Value::Float(-7.25),
        Value::Float(f64::INFINITY), Value::Float(f64::NEG_INFINITY), Value::Float(f64::NAN), Value::Float(1e300),
        Value::Float(170141183460469231731687303715884105728.0), Value::Float(-170141183460469231731687303715884105728.0),
        Value::Float(f64::MAX), Value::Float(f64::MIN_POSITIVE),
        dec("0"), dec("1"), dec("-1"), dec("2.5"), dec("-2.5"), dec("-0.5"), dec("0.5"), dec("3.5"), dec("-7.25"), dec("1.0000000000000000000000000001"),
        Value::Decimal(Decimal::MAX), Value::Decimal(Decimal::MIN),
        Value::Bool(true), Value::Bool(false),
        Value::String(String::new()), Value::String(" ".into()), Value::String("\t\n ".into()), Value::String("\u{3000}\u{a0}".into()),
        Value::String(" é ".into()), Value::String("1".into()), Value::String("true".into()), Value::String(" Ab ".into()),
        Value::String("2015-07-30T03:26:13Z".into()), Value::String("i1".into()),
        // context-sensitive case mapping (final sigma), a title-case digraph, and numerals with more fraction digits than a Decimal holds (rounded, not refused)
        Value::String("\u{39f}\u{394}\u{39f}\u{3a3}".into()), Value::String("\u{1c5}x\u{130}".into()),
        Value::String("0.33333333333333333333333333333333".into()), Value::String("1.00000000000000000000000000001".into()), Value::String("79228162514264337593543950336".into()),
        dt(0), dt(1438226773), dt(8210266876799), dt(-8334601228800), dt(1451606400), dt(1546214400), dt(1483228799),
        dur(0), dur(1), dur(-1), dur(i64::MAX / 1000), dur(-(i64::MAX / 1000)), dur(604800),
        // sub-second instants and spans (micro / nano), the same second apart; decimals that differ only in scale or in the sign of zero
        Value::DateTime(DateTime::from_timestamp(1438226773, 500_000).unwrap()), Value::DateTime(DateTime::from_timestamp(1438226773, 123_456_789).unwrap()),
        Value::DateTime(DateTime::from_timestamp(1438226773, 750_000_000).unwrap()), Value::DateTime(DateTime::from_timestamp(-1, 999_999_999).unwrap()),
        Value::Duration(TimeDelta::nanoseconds(500_000)), Value::Duration(TimeDelta::milliseconds(500)), Value::Duration(TimeDelta::milliseconds(-500)), Value::Duration(TimeDelta::nanoseconds(1)),
        dec("1.50"), dec("1.5"), dec("100.000"), dec("0.00"), dec("-0.0"), dec("0.0000000000000000000000000001"),
        Value::Vec(vec![]), Value::Vec(vec![Value::Int(1), Value::None]), Value::Vec(vec![Value::Vec(vec![Value::Int(10), Value::Int(20)]), Value::Int(30)]),
        Value::Map(BTreeMap::new()), Value::Map(m1),
    ]
}

fn small_pool() -> Vec<Value> {
    vec![
        Value::None, Value::Int(0), Value::Int(3), Value::Int(i128::MAX), Value::Float(2.5), dec("2.5"), Value::Bool(true),
        Value::Bool(false), Value::String("x".into()), dt(1438226773), dur(60), Value::Vec(vec![Value::Int(3), Value::None]),
    ]
}

type Un = (&'static str, fn(Expr) -> Expr);
type Bin = (&'static str, fn(Expr, Expr) -> Expr);

fn unary_ops() -> Vec<Un> {
    vec![
        ("not", Expr::not), ("neg", Expr::neg), ("some", Expr::some), ("none", Expr::none), ("int", Expr::int),
        ("float", Expr::float), ("dec", Expr::dec), ("datetime", Expr::datetime), ("duration", Expr::duration),
        ("uppercase", Expr::uppercase), ("lowercase", Expr::lowercase), ("trim", Expr::trim), ("round", Expr::round),
        ("floor", Expr::floor), ("fract", Expr::fract), ("year", Expr::year), ("month", Expr::month), ("week", Expr::week),
        ("day", Expr::day), ("hour", Expr::hour), ("minute", Expr::minute), ("second", Expr::second),
    ]
}
fn binary_ops() -> Vec<Bin> {
    vec![
        ("mult", Expr::mult), ("div", Expr::div), ("rem", Expr::rem), ("add", Expr::add), ("sub", Expr::sub),
        ("eq", Expr::eq), ("neq", Expr::neq), ("gt", Expr::gt), ("gte", Expr::gte), ("lt", Expr::lt), ("lte", Expr::lte),
        ("and", Expr::and), ("or", Expr::or), ("bitwise_and", Expr::bitwise_and), ("bitwise_or", Expr::bitwise_or),
        ("bitwise_xor", Expr::bitwise_xor), ("contains", Expr::contains),
    ]
}

fn tag_of(v: &Value) -> u8 {
    match v {
        Value::String(_) => 0, Value::Int(_) => 1, Value::Float(_) => 2, Value::Decimal(_) => 3, Value::Bool(_) => 4,
        Value::DateTime(_) => 5, Value::Duration(_) => 6, Value::Vec(_) => 7, Value::Map(_) => 8, Value::None => 9,
    }
}

fn eval_real(e: &Expr, facts: &Value) -> Result<RRes, String> {
    let r = catch_unwind(AssertUnwindSafe(|| block_on(e.evaluate(facts))));
    match r {
        Ok(Ok(v)) => Ok(Ok(v)),
        Ok(Err(err)) => Ok(Err(classify(&err))),
        Err(p) => Err(p.downcast_ref::<String>().cloned().or_else(|| p.downcast_ref::<&str>().map(|s| s.to_string())).unwrap_or_else(|| "panic".into())),
    }
}

/// `operands`: the ACTUAL operand values of the top node when they are known (depth-1 cases), else empty
fn check_expr(rep: &mut Report, name: &str, e: &Expr, facts: &Value, operands: &[&Value]) {
    rep.cases += 1;
    let empty = BTreeMap::new();
    let env = Env { facts, symbols: &empty, fns: &[] };
    let mut st = St::default();
    let expected = sem(e, &env, &mut st);
    match eval_real(e, facts) {
        Err(panic) => rep.fail(&["C01"], &format!("{name}.safety"), &format!("{e}"), &format!("PANIC: {panic}"), &format!("{expected:?}")),
        Ok(obs) => {
            if !same_res(&obs, &expected) {
                let mut tags = vec!["C02"];
                let any_none = operands.iter().any(|v| **v == Value::None);
                // C03 / C04 are only attributed when the ACTUAL operand values of the failing node are known (depth-1 cases)
                if !operands.is_empty() {
                    let lazy = matches!(name, "and" | "or" | "iif" | "eq" | "neq");
                    let none_rule_applies = if lazy { *operands[0] == Value::None || (matches!(name, "eq" | "neq") && any_none) } else { any_none };
                    if none_rule_applies { tags.push("C04"); }
                    if !any_none && (expected == Err(RErr::InvalidType) || obs == Err(RErr::InvalidType)) { tags.push("C03"); }
                    // "cross-type equality is false" (C03): == / != on two non-None operands of different kinds
                    if matches!(name, "eq" | "neq") && !any_none && operands.len() == 2 && std::mem::discriminant(operands[0]) != std::mem::discriminant(operands[1]) && !tags.contains(&"C03") { tags.push("C03"); }
                }
                if matches!(expected, Err(RErr::OutOfBounds) | Err(RErr::InvalidCast) | Err(RErr::DivisionByZero)) && obs.is_ok() { tags.push("C01"); }
                if name == "index" || name == "ref" { tags = vec!["C10"]; if any_none { tags.push("C04"); } }
                rep.fail(&tags, &format!("{name}.table"), &format!("{e}   [facts = {facts}]"), &format!("{obs:?}"), &format!("{expected:?}"));
            }
        }
    }
}

fn family_ops() {
    let mut rep = Report::new("ops");
    let p = pool();
    let facts = Value::None;
    for (name, f) in unary_ops() {
        for a in &p {
            check_expr(&mut rep, name, &f(Expr::value(a.clone())), &facts, &[a]);
        }
    }
    for (name, f) in binary_ops() {
        for a in &p {
            for b in &p {
                check_expr(&mut rep, name, &f(Expr::value(a.clone()), Expr::value(b.clone())), &facts, &[a, b]);
            }
        }
    }
    // if: every condition value x two branch values
    for c in &p {
        let e = Expr::iif(Expr::value(c.clone()), Expr::value(1), Expr::value(2));
        check_expr(&mut rep, "iif", &e, &facts, &[c]);
    }
    // index: containers x indices (incl. off-by-one and wrong kind)
    for v in &p {
        for idx in [Index::Vec(0), Index::Vec(1), Index::Vec(2), Index::Vec(3), Index::Vec(usize::MAX), Index::Map("a".into()),
                    Index::Map("A".into()), Index::Map("facts".into()), Index::Map("missing".into()), Index::Map("".into())] {
            let e = Expr::index(Expr::value(v.clone()), idx.clone());
            check_expr(&mut rep, "index", &e, &facts, &[v]);
            let e2 = Expr::index(Expr::index(Expr::value(v.clone()), Index::Vec(0)), idx);
            check_expr(&mut rep, "index", &e2, &facts, &[v]);
        }
    }
    // a numeric step on a map is a type error even when the map has a key spelled like the number (and a name step on a list likewise)
    {
        let mut dm = BTreeMap::new();
        dm.insert("0".to_string(), Value::Int(10)); dm.insert("1".to_string(), Value::Int(11)); dm.insert("2024".to_string(), Value::Int(12)); dm.insert("a".to_string(), Value::Int(13));
        let dmv = Value::Map(dm);
        let lv = Value::Vec(vec![Value::Int(20), Value::Int(21)]);
        for idx in [Index::Vec(0), Index::Vec(1), Index::Vec(2024), Index::Vec(7), Index::Map("0".into()), Index::Map("1".into()), Index::Map("2024".into()), Index::Map("len".into())] {
            check_expr(&mut rep, "index", &Expr::index(Expr::value(dmv.clone()), idx.clone()), &facts, &[&dmv]);
            check_expr(&mut rep, "index", &Expr::index(Expr::value(lv.clone()), idx.clone()), &facts, &[&lv]);
            check_expr(&mut rep, "ref", &Expr::index(Expr::reff("facts"), idx.clone()), &dmv, &[]);
            check_expr(&mut rep, "ref", &Expr::index(Expr::reff("facts"), idx), &lv, &[]);
        }
    }
    // references: every input shape x names (near-miss keys)
    for f in &p {
        for n in ["a", "A", "facts", "Facts", "FACTS", "fact", "factsx", "missing", ""] {
            check_expr(&mut rep, "ref", &Expr::reff(n), f, &[]);
            check_expr(&mut rep, "ref", &Expr::index(Expr::reff(n), Index::Map("a".into())), f, &[]);
            check_expr(&mut rep, "ref", &Expr::index(Expr::reff("facts"), Index::Map(n.into())), f, &[]);
        }
    }
    rep.finish();
}

fn family_compose() {
    let mut rep = Report::new("compose");
    let p = small_pool();
    let facts = Value::None;
    let uns = unary_ops();
    let bins = binary_ops();
    // unary(binary(a, b)) and binary(unary(a), b), binary(a, binary(b, c)) on the small pool
    for (bn, bf) in &bins {
        for a in &p {
            for b in &p {
                let inner = bf(Expr::value(a.clone()), Expr::value(b.clone()));
                for (un, uf) in &uns {
                    if matches!(*un, "some" | "none" | "not" | "neg" | "int" | "float") {
                        check_expr(&mut rep, un, &uf(inner.clone()), &facts, &[]);
                    }
                }
                for c in [Value::None, Value::Int(0), Value::Bool(true), Value::Float(2.5)] {
                    for (bn2, bf2) in &bins {
                        if matches!(*bn2, "mult" | "add" | "eq" | "neq" | "and" | "or" | "gt" | "contains") {
                            check_expr(&mut rep, bn2, &bf2(Expr::value(c.clone()), inner.clone()), &facts, &[]);
                            check_expr(&mut rep, bn2, &bf2(inner.clone(), Expr::value(c.clone())), &facts, &[]);
                        }
                    }
                }
                let _ = bn;
            }
        }
    }
    // unary(unary(a)) on the whole pool: stacked operators are two applications, never a cancellation or a shortcut
    {
        let full = pool();
        let empty = BTreeMap::new();
        for (un, uf) in &uns {
            for (un2, uf2) in &uns {
                if !matches!(*un, "neg" | "not" | "some" | "none" | "int" | "float" | "dec" | "uppercase" | "lowercase" | "trim" | "round" | "floor" | "fract") { continue; }
                if !matches!(*un2, "neg" | "not" | "some" | "none" | "int" | "float" | "dec" | "uppercase" | "lowercase" | "trim" | "round" | "floor" | "fract" | "duration" | "second") { continue; }
                for a in &full {
                    let inner = uf2(Expr::value(a.clone()));
                    // the outer node's actual operand is the inner node's value when it has one, else the error passes through and the operand is `a`
                    let env = Env { facts: &facts, symbols: &empty, fns: &[] };
                    let mut st = St::default();
                    let mid = sem(&inner, &env, &mut st);
                    let operand = match &mid { Ok(v) => v.clone(), Err(_) => a.clone() };
                    check_expr(&mut rep, un, &uf(inner), &facts, &[&operand]);
                    let _ = un2;
                }
            }
        }
    }
    // lists and maps with an erroring / None element at each position
    let bad = Expr::div(Expr::value(1), Expr::value(0));
    for k in 0..3 {
        let mut items = vec![Expr::value(1), Expr::value(Value::None), Expr::value("x")];
        items[k] = bad.clone();
        check_expr(&mut rep, "vec", &Expr::Vec(items.clone()), &facts, &[]);
        let m: BTreeMap<String, Expr> = ["b", "a", "c"].iter().zip(items).map(|(k, v)| (k.to_string(), v)).collect();
        check_expr(&mut rep, "map", &Expr::Map(m), &facts, &[]);
    }
    rep.finish();
}

// ---- user functions for history scenarios ------------------------------------------------------------------------
struct TestFn {
    model: FnModel,
    log: Arc<Mutex<Vec<Call>>>,
}
#[async_trait]
impl UserFunction for TestFn {
    async fn call(&self, params: Value) -> FunctionResult {
        let prior;
        {
            let mut l = self.log.lock().unwrap();
            prior = l.iter().filter(|c| c.name == self.model.name).count();
            l.push(Call { name: self.model.name.to_string(), arg: canon(&params) });
        }
        if self.model.name == "boom_ctx" {
            // a failure with a context layer: the outcome must carry the same chain, not a flattened copy
            return Err(anyhow::anyhow!("inner cause").context("outer context"));
        }
        if self.model.name == "boom_reval" {
            // the failure is a `reval::Error` wrapped by anyhow (what `let n: i64 = params.try_into()?` produces in user code)
            return Err(anyhow::Error::new(reval::Error::InvalidType));
        }
        (self.model.behaviour)(&params, prior).map_err(|e| anyhow::anyhow!(e))
    }
    fn name(&self) -> &'static str { self.model.name }
    fn cacheable(&self) -> bool { self.model.cacheable }
}

fn b_identity(v: &Value, _n: usize) -> Result<Value, String> { Ok(v.clone()) }
fn b_count(_v: &Value, n: usize) -> Result<Value, String> { Ok(Value::Int(n as i128)) }
fn b_fail_on_neg(v: &Value, _n: usize) -> Result<Value, String> {
    match v { Value::Int(i) if *i < 0 => Err(format!("negative {i}")), other => Ok(other.clone()) }
}
fn b_fail_reval(_v: &Value, _n: usize) -> Result<Value, String> { Err(format!("{} #typed", reval::Error::InvalidType)) }
fn b_fail_ctx(_v: &Value, _n: usize) -> Result<Value, String> { Err("outer context #chain2".to_string()) }
fn b_fail_first(v: &Value, n: usize) -> Result<Value, String> { if n == 0 { Err("first call fails".into()) } else { Ok(v.clone()) } }

fn fn_models() -> Vec<FnModel> {
    vec![
        FnModel { name: "probe", cacheable: false, behaviour: b_identity },
        FnModel { name: "id", cacheable: true, behaviour: b_identity },
        FnModel { name: "count", cacheable: true, behaviour: b_count },
        FnModel { name: "count_nc", cacheable: false, behaviour: b_count },
        FnModel { name: "get", cacheable: true, behaviour: b_fail_on_neg },
        FnModel { name: "get_more", cacheable: true, behaviour: b_identity },
        FnModel { name: "flaky", cacheable: true, behaviour: b_fail_first },
        FnModel { name: "boom_reval", cacheable: true, behaviour: b_fail_reval },
        FnModel { name: "boom_ctx", cacheable: false, behaviour: b_fail_ctx },
    ]
}

struct RunResult {
    outcomes: Result<Vec<(String, RRes)>, String>, // (rule name, value)
    log: Vec<Call>,
}

fn run_real(rules: &[(String, Expr)], symbols: &BTreeMap<String, Value>, facts: &Value, evaluations: usize) -> Result<Vec<RunResult>, String> {
    let log = Arc::new(Mutex::new(Vec::new()));
    let mut b = ruleset();
    for m in fn_models() {
        b = b.with_function(TestFn { model: m, log: log.clone() }).map_err(|e| format!("with_function: {e}"))?;
    }
    for (k, v) in symbols {
        b = b.with_symbol(k.clone(), v.clone());
    }
    for (n, e) in rules {
        b = b.with_rule(Rule::new(n.clone(), BTreeMap::new(), e.clone())).map_err(|e| format!("with_rule: {e}"))?;
    }
    // the same ruleset built through ONE with_rules batch must list the same rules in the same order (C09: "in the order the rules were added")
    if rules.len() >= 2 {
        let mut b2 = ruleset();
        for m in fn_models() {
            b2 = b2.with_function(TestFn { model: m, log: Arc::new(Mutex::new(Vec::new())) }).map_err(|e| format!("with_function: {e}"))?;
        }
        for (k, v) in symbols { b2 = b2.with_symbol(k.clone(), v.clone()); }
        // names in DESCENDING byte order (and one non-ASCII), so that any re-ordering by name shows
        let want: Vec<String> = rules.iter().enumerate().map(|(k, (n, _))| format!("{}{}{n}", (b'z' - k as u8) as char, if k == 1 { "é" } else { "" })).collect();
        let batch: Vec<Rule> = rules.iter().zip(&want).map(|((_, e), n)| Rule::new(n.clone(), BTreeMap::new(), e.clone())).collect();
        let rs2 = b2.with_rules(batch).map_err(|e| format!("with_rules: {e}"))?.build();
        let got = catch_unwind(AssertUnwindSafe(|| block_on(rs2.evaluate_value(facts)))).map_err(|_| "PANIC (ruleset built by with_rules)".to_string())?
            .map_err(|e| format!("evaluate_value failed as a whole: {e}"))?;
        let names: Vec<String> = got.iter().map(|o| o.rule.name().to_string()).collect();
        if names != want {
            return Err(format!("ruleset built by with_rules({want:?}) reports its outcomes in the order {names:?}"));
        }
    }
    let rs = b.build();
    let mut out = vec![];
    for _ in 0..evaluations {
        log.lock().unwrap().clear();
        let r = catch_unwind(AssertUnwindSafe(|| block_on(rs.evaluate_value(facts))));
        let outcomes = match r {
            Err(_) => Err("PANIC".to_string()),
            Ok(Err(e)) => Err(format!("evaluate_value failed as a whole: {e}")),
            Ok(Ok(os)) => Ok(os.iter().map(|o| (o.rule.name().to_string(), match &o.value { Ok(v) => Ok(v.clone()), Err(e) => Err(classify(e)) })).collect()),
        };
        out.push(RunResult { outcomes, log: log.lock().unwrap().clone() });
    }
    Ok(out)
}

fn run_model(rules: &[(String, Expr)], symbols: &BTreeMap<String, Value>, facts: &Value) -> (Vec<(String, RRes)>, Vec<Call>) {
    let fns = fn_models();
    let env = Env { facts, symbols, fns: &fns };
    let mut st = St::default(); // fresh cache and log for every evaluation
    let mut out = vec![];
    for (n, e) in rules {
        out.push((n.clone(), sem(e, &env, &mut st)));
    }
    (out, st.log)
}

fn mentions(e: &Expr, f: &dyn Fn(&Expr) -> bool) -> bool {
    if f(e) { return true; }
    use Expr::*;
    match e {
        Value(_) | Reference(_) | Symbol(_) => false,
        Function(_, x) | Index(x, _) | Not(x) | Neg(x) | Some(x) | None(x) | Int(x) | Float(x) | Dec(x) | DateTime(x) | Duration(x)
        | UpperCase(x) | LowerCase(x) | Trim(x) | Floor(x) | Round(x) | Fract(x) | Year(x) | Month(x) | Week(x) | Day(x) | Hour(x)
        | Minute(x) | Second(x) => mentions(x, f),
        If(a, b, c) => mentions(a, f) || mentions(b, f) || mentions(c, f),
        Map(m) => m.values().any(|x| mentions(x, f)),
        Vec(v) => v.iter().any(|x| mentions(x, f)),
        Mult(a, b) | Div(a, b) | Rem(a, b) | Add(a, b) | Sub(a, b) | Equals(a, b) | NotEquals(a, b) | GreaterThan(a, b)
        | GreaterThanEquals(a, b) | LessThan(a, b) | LessThanEquals(a, b) | And(a, b) | Or(a, b) | BitAnd(a, b) | BitOr(a, b)
        | BitXor(a, b) | Contains(a, b) => mentions(a, f) || mentions(b, f),
    }
}

/// which property does a wrong outcome of rule `k` witness?
fn attribute(rules: &[(String, Expr)], k: usize, family_default: &[&'static str]) -> Vec<&'static str> {
    let e = &rules[k].1;
    let calls = mentions(e, &|x| matches!(x, Expr::Function(_, _)));
    let cacheable_calls = mentions(e, &|x| matches!(x, Expr::Function(n, _) if n != "probe" && n != "count_nc"));
    let lookups = mentions(e, &|x| matches!(x, Expr::Reference(_) | Expr::Symbol(_) | Expr::Index(_, _)));
    let mut t: Vec<&'static str> = vec![];
    if cacheable_calls || mentions(e, &|x| matches!(x, Expr::Function(n, _) if n == "undefined_fn")) { t.push("C11"); }
    if calls && !cacheable_calls { t.push("C05"); }
    // "a function that declares itself non-cacheable is invoked on every call" is a clause of C11 as well
    if mentions(e, &|x| matches!(x, Expr::Function(n, _) if n == "count_nc")) && !t.contains(&"C11") { t.push("C11"); }
    if lookups && !calls { t.push("C10"); }
    if !calls && !lookups { t.push("C02"); }
    if rules.len() > 1 && k > 0 && calls { t.push("C09"); } // outcome depends on what earlier rules did
    for d in family_default { if t.is_empty() { t.push(d); } }
    t
}

fn check_scenario(rep: &mut Report, what: &str, tags: &[&str], rules: Vec<(String, Expr)>, symbols: &BTreeMap<String, Value>, facts: &Value) {
    rep.cases += 1;
    let desc = format!("{what}: rules = [{}]  facts = {facts}", rules.iter().map(|(n, e)| format!("{n}: {e}")).collect::<Vec<_>>().join(" ; "));
    let (exp_out, exp_log) = run_model(&rules, symbols, facts);
    match run_real(&rules, symbols, facts, 2) {
        Err(e) if e.starts_with("ruleset built by with_rules") => rep.fail(&["C09", "C15"], "with_rules.order", &desc, &e, "the order in which the rules were added"),
        Err(e) if e.starts_with("PANIC") => rep.fail(&["C01", "C09"], "evaluate_value.safety", &desc, &e, "outcomes, not a panic"),
        Err(e) => rep.fail(tags, "scenario.setup", &desc, &e, "ruleset builds"),
        Ok(runs) => {
            for (k, run) in runs.iter().enumerate() {
                match &run.outcomes {
                    Err(e) => { rep.fail(if e.starts_with("PANIC") { &["C01", "C09"] } else { &["C09"] }, "evaluate_value.ok", &desc, e, "Ok(outcomes)"); return; }
                    Ok(os) => {
                        let names_ok = os.len() == exp_out.len() && os.iter().zip(&exp_out).all(|(a, b)| a.0 == b.0);
                        if !names_ok {
                            rep.fail(&["C09"], "evaluate_value.len", &desc, &format!("evaluation #{k}: outcome rules {:?}", os.iter().map(|o| &o.0).collect::<Vec<_>>()),
                                     &format!("{:?}", exp_out.iter().map(|o| &o.0).collect::<Vec<_>>()));
                            return;
                        }
                        for (idx, (a, b)) in os.iter().zip(&exp_out).enumerate() {
                            if !same_res(&a.1, &b.1) {
                                let mut t = attribute(&rules, idx, &["C02"]);
                                if run.log == exp_log { t.retain(|x| *x != "C05"); if t.is_empty() { t.push("C02"); } }
                                if k > 0 && !t.contains(&"C11") { t.push("C11"); } // differs only in a later evaluation: something was remembered
                                if tags.contains(&"C05") && !t.contains(&"C02") { t.push("C02"); }
                                rep.fail(&t, "outcome", &desc, &format!("evaluation #{k}: rule {} = {:?}", a.0, a.1), &format!("{:?}", b.1));
                                return;
                            }
                        }
                        if run.log != exp_log {
                            let cacheable = rules.iter().any(|(_, e)| mentions(e, &|x| matches!(x, Expr::Function(n, _) if n != "probe" && n != "count_nc")));
                            let nc = rules.iter().any(|(_, e)| mentions(e, &|x| matches!(x, Expr::Function(n, _) if n == "count_nc")));
                            let t: &[&str] = if cacheable { &["C11"] } else if nc { &["C05", "C11"] } else { &["C05"] };
                            rep.fail(t, "invocation-history", &desc, &format!("evaluation #{k}: calls {:?}", run.log.iter().map(|c| format!("{}({})", c.name, c.arg)).collect::<Vec<_>>()),
                                     &format!("{:?}", exp_log.iter().map(|c| format!("{}({})", c.name, c.arg)).collect::<Vec<_>>()));
                            return;
                        }
                    }
                }
            }
        }
    }
}

fn call(f: &str, a: Expr) -> Expr { Expr::func(f, a) }
fn v(x: impl Into<Value>) -> Expr { Expr::value(x) }

fn family_lazy() {
    let mut rep = Report::new("lazy");
    let syms = BTreeMap::new();
    let facts = Value::None;
    let bad = || Expr::div(v(1), v(0));
    let conds: Vec<Expr> = vec![call("probe", v(true)), call("probe", v(false)), call("probe", v(Value::None)), call("probe", v(1)), bad()];
    // leaves: observable calls, an error, and plain literals (an operator must not look at what its other operand is *written* as)
    let leaves: Vec<Expr> = vec![call("probe", v(7)), call("probe", v(Value::None)), bad(), call("probe", v(true)), call("probe", v(false)),
                                 v(true), v(false), v(Value::None), v(1)];
    let tags = ["C05", "C02"];
    for c in &conds {
        for l in &leaves {
            for r in &leaves {
                check_scenario(&mut rep, "if", &tags, vec![("r".into(), Expr::iif(c.clone(), l.clone(), r.clone()))], &syms, &facts);
            }
        }
    }
    let bins = binary_ops();
    for (_n, f) in &bins {
        for l in &leaves {
            for r in &leaves {
                check_scenario(&mut rep, "binary", &tags, vec![("r".into(), f(l.clone(), r.clone()))], &syms, &facts);
            }
        }
    }
    for (_n, f) in unary_ops() {
        for l in &leaves {
            check_scenario(&mut rep, "unary", &tags, vec![("r".into(), f(l.clone()))], &syms, &facts);
        }
    }
    // a NaN (literal or computed) on the left of == / != does not excuse the right operand
    for nan in [v(f64::NAN), Expr::div(v(0.0), v(0.0)), call("probe", v(f64::NAN))] {
        for r in [call("probe", v(1)), bad(), call("probe", v(f64::NAN)), v(1)] {
            check_scenario(&mut rep, "nan-eq", &tags, vec![("r".into(), Expr::eq(nan.clone(), r.clone()))], &syms, &facts);
            check_scenario(&mut rep, "nan-neq", &tags, vec![("r".into(), Expr::neq(nan.clone(), r.clone()))], &syms, &facts);
            check_scenario(&mut rep, "nan-gt", &tags, vec![("r".into(), Expr::gt(nan.clone(), r.clone()))], &syms, &facts);
        }
    }
    // the same item / entry / operand written twice is evaluated twice
    for n in [2usize, 3, 5] {
        let same: Vec<Expr> = (0..n).map(|_| call("probe", v(1))).collect();
        check_scenario(&mut rep, "vec-repeat", &tags, vec![("r".into(), Expr::Vec(same.clone()))], &syms, &facts);
        check_scenario(&mut rep, "vec-repeat-nested", &tags, vec![("r".into(), Expr::Vec(vec![Expr::Vec(same.clone()), Expr::Vec(same.clone())]))], &syms, &facts);
        let m: BTreeMap<String, Expr> = same.iter().enumerate().map(|(k, e)| (format!("k{k}"), e.clone())).collect();
        check_scenario(&mut rep, "map-repeat", &tags, vec![("r".into(), Expr::Map(m))], &syms, &facts);
    }
    // chains of three and four operands: strictly left to right, stopping where the result is decided
    let t = || call("probe", v(true)); let f = || call("probe", v(false));
    for a in [t(), f(), bad(), call("probe", v(1))] { for b in [t(), f(), bad()] { for c in [t(), f(), bad(), call("probe", v(7))] {
        check_scenario(&mut rep, "and-chain", &tags, vec![("r".into(), Expr::and(Expr::and(a.clone(), b.clone()), c.clone()))], &syms, &facts);
        check_scenario(&mut rep, "or-chain", &tags, vec![("r".into(), Expr::or(Expr::or(a.clone(), b.clone()), c.clone()))], &syms, &facts);
        check_scenario(&mut rep, "and-right-nested", &tags, vec![("r".into(), Expr::and(a.clone(), Expr::and(b.clone(), c.clone())))], &syms, &facts);
        check_scenario(&mut rep, "and-chain-4", &tags, vec![("r".into(), Expr::and(Expr::and(Expr::and(a.clone(), b.clone()), c.clone()), t()))], &syms, &facts);
        check_scenario(&mut rep, "add-chain", &tags, vec![("r".into(), Expr::add(Expr::add(a.clone(), b.clone()), c.clone()))], &syms, &facts);
    }}}
    // lists / maps / call arguments / index: every position of an erroring element
    for k in 0..4 {
        let mut items = vec![call("probe", v(1)), call("probe", v(2)), call("probe", v(3)), call("probe", v(4))];
        items[k] = bad();
        check_scenario(&mut rep, "vec", &tags, vec![("r".into(), Expr::Vec(items.clone()))], &syms, &facts);
        let m: BTreeMap<String, Expr> = ["d", "b", "a", "c"].iter().zip(items.clone()).map(|(k, v)| (k.to_string(), v)).collect();
        check_scenario(&mut rep, "map", &tags, vec![("r".into(), Expr::Map(m))], &syms, &facts);
        check_scenario(&mut rep, "nested-call", &tags, vec![("r".into(), call("probe", Expr::Vec(items.clone())))], &syms, &facts);
        check_scenario(&mut rep, "index", &tags, vec![("r".into(), Expr::index(Expr::Vec(items), Index::Vec(k)))], &syms, &facts);
    }
    rep.finish();
}

fn family_ruleset() {
    let mut rep = Report::new("ruleset");
    let mut syms = BTreeMap::new();
    syms.insert("limit".to_string(), Value::Int(1));
    syms.insert("Limit".to_string(), Value::Int(2));
    let mut fm = BTreeMap::new();
    fm.insert("x".to_string(), Value::Int(5));
    let facts = Value::Map(fm);
    let tags = ["C09", "C11", "C10"];
    let bad = || Expr::div(v(1), v(0));
    // building blocks: succeeding rules, rules failing with each error class, rules calling user functions
    let blocks: Vec<Expr> = vec![
        v(1), Expr::reff("x"), Expr::reff("nope"), Expr::symbol("limit"), Expr::symbol("Limit"), Expr::symbol("LIMIT"), bad(),
        Expr::add(v(1), v("1")), Expr::int(v("zz")), call("undefined_fn", v(1)),
        call("count", v(1)), call("count", v("1")), call("count", v("i1")), call("count", Expr::Vec(vec![v(1)])), call("count", v(1.0)),
        call("count_nc", v(1)), call("get", v(-1)), call("get", v(1)), call("get_more", v(1)), call("flaky", v(1)),
        call("count", Expr::Vec(vec![v("a"), v("b")])), call("count", Expr::Vec(vec![v("a\", \"b")])),
        Expr::iif(Expr::none(call("get", v(-1))), v(0), v(1)),
        // None as an argument and as a (cached) result; a cacheable identity
        call("id", v(Value::None)), call("id", v(1)), call("count", v(Value::None)), call("count_nc", v(Value::None)), call("get_more", v(Value::None)),
        call("boom_reval", v(1)), Expr::add(call("boom_reval", v(1)), v(1)), call("boom_ctx", v(1)),
        call("count", v(Value::Decimal(rust_decimal::Decimal::new(1, 0)))), call("count", v(Value::Decimal(rust_decimal::Decimal::new(10, 1)))), call("count", v(1.5)),
        call("count", v(Value::Decimal(rust_decimal::Decimal::new(15, 1)))), call("count", Expr::Vec(vec![v(2), v(3)])), call("count", Expr::Vec(vec![v(2.0), v(3)])), call("count", v(true)), call("count", v("true")),
        // the same call twice within ONE rule (list items, operands), long multi-byte arguments, a symbol named like an input field
        Expr::Vec(vec![call("count_nc", v(1)), call("count_nc", v(1))]), Expr::add(call("count_nc", v(1)), call("count_nc", v(1))),
        Expr::Vec(vec![call("count", v(1)), call("count", v(1)), call("count_nc", v(1)), call("count", v(1))]),
        Expr::Vec(vec![call("get", v(-1)), call("get", v(-1))]),
        call("count", v("é".repeat(120))), call("id", v(format!("a{}", "日".repeat(56)))), call("count", v(format!("id {}", "🦀".repeat(40)))), call("count", Expr::Vec(vec![v("é".repeat(97))])),
        Expr::symbol("x"), Expr::add(Expr::symbol("x"), v(1)),
        call("count", v(Value::DateTime(DateTime::from_timestamp(1709208000, 250_000_000).unwrap()))), call("count", v(Value::DateTime(DateTime::from_timestamp(1709208000, 750_000_000).unwrap()))),
        call("count", v(Value::Duration(TimeDelta::milliseconds(500)))), call("count", v(Value::Duration(TimeDelta::milliseconds(-500)))), call("count", v(Value::Duration(TimeDelta::nanoseconds(1)))),
        call("count", v(dec("1.0"))), call("count", v(dec("1.00"))), call("count", v(0.0)), call("count", v(-0.0)),
    ];
    // all pairs and a selection of triples
    for (i, a) in blocks.iter().enumerate() {
        for (j, b) in blocks.iter().enumerate() {
            check_scenario(&mut rep, "pair", &tags, vec![("r1".into(), a.clone()), ("r2".into(), b.clone())], &syms, &facts);
            if (i + j) % 3 == 0 {
                for c in [call("count", v(1)), call("get", v(1)), bad(), call("get", v(-1))] {
                    check_scenario(&mut rep, "triple", &tags, vec![("r1".into(), a.clone()), ("r2".into(), b.clone()), ("r3".into(), c)], &syms, &facts);
                }
            }
        }
    }
    // cacheable call, something else in between, the same cacheable call again (the cache entry must survive what happens in between)
    for first in [call("count", v(1)), call("id", v(Value::None)), call("id", v(1)), call("count", v(Value::None))] {
        for mid in [call("count_nc", v(1)), call("count_nc", v(Value::None)), bad(), call("get", v(-1)), call("count", v(2)), call("undefined_fn", v(1)), call("flaky", v(1))] {
            check_scenario(&mut rep, "sandwich", &tags, vec![("r1".into(), first.clone()), ("r2".into(), mid.clone()), ("r3".into(), first.clone())], &syms, &facts);
        }
    }
    // many distinct cacheable calls in one evaluation, then one of them again (129, 300: past any "reasonable" cache size)
    for n in [2usize, 129, 300] {
        let fan: Vec<Expr> = (0..n as i128).map(|k| call("count", v(k))).collect();
        check_scenario(&mut rep, "fan-out", &tags, vec![("r1".into(), Expr::Vec(fan)), ("r2".into(), call("count", v(0))), ("r3".into(), call("count", v(n as i128 - 1)))], &syms, &facts);
    }
    check_scenario(&mut rep, "empty", &tags, vec![], &syms, &facts);
    // Serialize entry point: evaluate(&input) == evaluate_value(&serialized input) for inputs of every shape
    {
        use reval::value::ser::ValueSerializer;
        use serde::Serialize;
        #[derive(serde::Serialize)] struct U;
        #[derive(serde::Serialize)] struct S2 { x: i8, y: Option<u8> }
        let rules: Vec<Expr> = vec![Expr::reff("facts"), Expr::none(Expr::reff("facts")), Expr::reff("x"), Expr::index(Expr::reff("facts"), Index::Map("x".into())),
                                    Expr::index(Expr::reff("facts"), Index::Vec(0)), Expr::some(Expr::reff("y"))];
        let mut b = ruleset();
        for (i, e) in rules.iter().enumerate() { b = b.with_rule(Rule::new(format!("r{i}"), BTreeMap::new(), e.clone())).unwrap(); }
        let rs = b.build();
        macro_rules! same {
            ($what:expr, $input:expr) => {{
                rep.cases += 1;
                let input = $input;
                let via_value = input.serialize(ValueSerializer).map(|v| block_on(rs.evaluate_value(&v)).map(|os| os.iter().map(|o| match &o.value { Ok(v) => Ok(v.clone()), Err(e) => Err(classify(e)) }).collect::<Vec<RRes>>()));
                let direct = catch_unwind(AssertUnwindSafe(|| block_on(rs.evaluate(&input)).map(|os| os.iter().map(|o| match &o.value { Ok(v) => Ok(v.clone()), Err(e) => Err(classify(e)) }).collect::<Vec<RRes>>())));
                match (direct, via_value) {
                    (Err(_), _) => rep.fail(&["C09"], "evaluate.serialize", $what, "PANIC", "outcomes or an error"),
                    (Ok(Ok(a)), Ok(Ok(b))) => if a.len() != b.len() || !a.iter().zip(&b).all(|(x, y)| same_res(x, y)) {
                        rep.fail(&["C09"], "evaluate.serialize", &format!("evaluate(&{}) vs evaluate_value(serialized)", $what), &format!("{a:?}"), &format!("{b:?}")); },
                    (Ok(Err(_)), Err(_)) => {}
                    (Ok(a), b) => rep.fail(&["C09"], "evaluate.serialize", $what, &format!("{:?}", a.map(|v| v.len()).map_err(|e| e.to_string())), &format!("{:?}", b.map(|r| r.map(|v| v.len()).map_err(|e| e.to_string())).map_err(|e| e.to_string()))),
                }
            }};
        }
        same!("()", ());
        same!("None::<u8>", Option::<u8>::None);
        same!("Some(3u8)", Some(3u8));
        same!("unit struct", U);
        same!("5u8", 5u8);
        same!("\"s\"", "s");
        same!("vec![1,2]", vec![1u8, 2]);
        same!("S2{x:-1,y:None}", S2 { x: -1, y: None });
        same!("S2{x:1,y:Some(2)}", S2 { x: 1, y: Some(2) });
        same!("u128::MAX", u128::MAX);
        same!("empty map", BTreeMap::<String, u8>::new());
    }
    {
        #[derive(serde::Serialize)]
        struct In { x: u8 }
        rep.cases += 1;
        let rs = ruleset().with_rule(Rule::new("r", BTreeMap::new(), Expr::reff("x"))).unwrap().build();
        let r = catch_unwind(AssertUnwindSafe(|| block_on(rs.evaluate(&In { x: 5 }))));
        match r {
            Ok(Ok(os)) if os.len() == 1 && matches!(&os[0].value, Ok(Value::Int(5))) => {}
            other => rep.fail(&["C09", "C13"], "evaluate.serialize", "evaluate(&In{x:5}) with rule `x`", &format!("{:?}", other.map(|r| r.map(|os| os.len()))), "one outcome Ok(Int(5))"),
        }
    }
    rep.finish();
}

// ---- C15: builder sequences ---------------------------------------------------------------------------------------------
struct NamedFn(&'static str);
#[async_trait]
impl UserFunction for NamedFn {
    async fn call(&self, _p: Value) -> FunctionResult { Ok(Value::String(self.0.to_string())) }
    fn name(&self) -> &'static str { self.0 }
}

fn is_ident(s: &str) -> bool {
    let mut cs = s.chars();
    match cs.next() {
        Some(c) => (c == '_' || unicode_ident_start(c)) && cs.all(unicode_ident_continue),
        None => false,
    }
}
// the per-character classes are the Unicode XID tables themselves (crate unicode-xid, also a dependency of reval): what the property
// fixes is the STRUCTURE (first `_` or XID_Start, then XID_Continue), which is what the oracle above spells out
fn unicode_ident_start(c: char) -> bool { unicode_xid::UnicodeXID::is_xid_start(c) }
fn unicode_ident_continue(c: char) -> bool { unicode_xid::UnicodeXID::is_xid_continue(c) }

const RESERVED: [&str; 38] = [
    "and", "or", "if", "then", "else", "is_some", "is_none", "some", "int", "float", "dec", "true", "false", "none", "contains", "in",
    "to_upper", "to_lower", "uppercase", "lowercase", "starts", "ends", "trim", "round", "floor", "fract", "date_time", "datetime",
    "duration", "year", "month", "week", "day", "hour", "minute", "second", "key", "val",
];

fn family_builder() {
    let mut rep = Report::new("builder");
    // every candidate function name on its own
    let mut names: Vec<&'static str> = RESERVED.to_vec();
    names.extend(["f", "_f", "f1", "1f", "_", "_-", "_ x", "a b", "a-b", "", "é", "f_", "F", "datetime2", "_1"]);
    // one name starting with each printable ASCII character that is not an identifier start (the neighbours of '_' and of the letters in
    // code-point order matter: '^', '`', '@', '[', '{', ...), and some non-ASCII starts
    names.extend(["!a", "\"a", "#a", "$a", "%a", "&a", "'a", "(a", ")a", "*a", "+a", ",a", "-a", ".a", "/a", "0a", "9a", ":a", ";a", "<a", "=a", ">a", "?a", "@a",
                  "[a", "\\a", "]a", "^a", "`a", "{a", "|a", "}a", "~a", " a", "\u{7f}a", "\u{a0}a", "\u{2028}a", "€a", "٣a", "_é", "éa", "π", "名前", "a\u{301}", "\u{301}a"]);
    for n in &names {
        rep.cases += 1;
        let r = ruleset().with_function(NamedFn(n));
        let expect_ok = is_ident(n) && !RESERVED.contains(n);
        match (&r, expect_ok) {
            (Ok(_), true) | (Err(_), false) => {}
            _ => rep.fail(&["C15"], "add_fn.iff", &format!("with_function(name = {n:?})"), &format!("{}", if r.is_ok() { "accepted" } else { "refused" }), if expect_ok { "accepted" } else { "refused" }),
        }
        if let Err(e) = &r {
            if !format!("{e}").contains(n) && !n.is_empty() {
                rep.fail(&["C15"], "add_fn.invalid", &format!("with_function(name = {n:?})"), &format!("{e}"), "a refusal naming the offending name");
            }
        }
        // boxed path, duplicates inside one batch
        rep.cases += 1;
        let batch: Vec<Box<dyn UserFunction + Send + Sync>> = vec![Box::new(NamedFn("ok1")), Box::new(NamedFn(n)), Box::new(NamedFn("ok1"))];
        if ruleset().with_functions(batch).is_ok() {
            rep.fail(&["C15"], "add_fn.duplicate", &format!("with_functions([ok1, {n:?}, ok1])"), "accepted", "refused (duplicate ok1)");
        }
    }
    // function duplicates ACROSS calls: every way of registering "dupf" twice must refuse the second one and name it
    {
        let one = |n: &'static str| -> Vec<Box<dyn UserFunction + Send + Sync>> { vec![Box::new(NamedFn(n))] };
        let attempts: Vec<(&str, Box<dyn Fn() -> reval::Result<Builder>>)> = vec![
            ("with_function(dupf); with_function(dupf)", Box::new(|| ruleset().with_function(NamedFn("dupf"))?.with_function(NamedFn("dupf")))),
            ("with_function(dupf); with_functions([dupf])", Box::new(move || ruleset().with_function(NamedFn("dupf"))?.with_functions(one("dupf")))),
            ("with_functions([dupf]); with_function(dupf)", Box::new(move || ruleset().with_functions(one("dupf"))?.with_function(NamedFn("dupf")))),
            ("with_functions([dupf]); with_functions([other, dupf])", Box::new(move || ruleset().with_functions(one("dupf"))?.with_functions(vec![Box::new(NamedFn("other")) as Box<dyn UserFunction + Send + Sync>, Box::new(NamedFn("dupf"))]))),
            ("with_functions([dupf, other]); with_functions([dupf])", Box::new(move || ruleset().with_functions(vec![Box::new(NamedFn("dupf")) as Box<dyn UserFunction + Send + Sync>, Box::new(NamedFn("other"))])?.with_functions(one("dupf")))),
        ];
        for (what, mk) in attempts {
            rep.cases += 1;
            match mk() {
                Err(e) if format!("{e}").contains("dupf") => {}
                Err(e) => rep.fail(&["C15"], "add_fn.duplicate", what, &format!("{e}"), "a refusal naming dupf"),
                Ok(_) => rep.fail(&["C15"], "add_fn.duplicate", what, "accepted", "refused (duplicate dupf)"),
            }
        }
    }
    // rule-name sequences over a small pool, through with_rule and with_rules
    let rule = |n: &str| Rule::new(n, BTreeMap::new(), Expr::value(1));
    let poolr = ["a", "b", "A", "a "];
    for x in &poolr { for y in &poolr { for z in &poolr {
        let seq = [*x, *y, *z];
        rep.cases += 2;
        let mut expect: Vec<&str> = vec![];
        let mut dup = None;
        for n in &seq { if expect.contains(n) { dup = Some(*n); break; } expect.push(n); }
        // one by one
        let mut b = Ok(ruleset());
        for n in &seq { b = b.and_then(|b| b.with_rule(rule(n))); }
        check_rules(&mut rep, "with_rule x3", &seq, b, dup, &expect);
        // as one batch
        let b2 = ruleset().with_rules(seq.iter().map(|n| rule(n)));
        check_rules(&mut rep, "with_rules(batch)", &seq, b2, dup, &expect);
        // batch after a single
        rep.cases += 1;
        let b3 = ruleset().with_rule(rule(seq[0])).and_then(|b| b.with_rules(seq[1..].iter().map(|n| rule(n))));
        check_rules(&mut rep, "with_rule then with_rules", &seq, b3, dup, &expect);
    }}}
    // symbols: the most recent registration wins, through every mix of with_symbol / with_symbols
    let sym_rule = Rule::new("s", BTreeMap::new(), Expr::symbol("a"));
    let scenarios: Vec<(&str, Box<dyn Fn() -> Builder>, i128)> = vec![
        ("with_symbol a=1; with_symbol a=2", Box::new(|| ruleset().with_symbol("a", Value::Int(1)).with_symbol("a", Value::Int(2))), 2),
        ("with_symbol a=1; with_symbols {a:20,b:30}", Box::new(|| ruleset().with_symbol("a", Value::Int(1)).with_symbols(Symbols::from([("a", Value::Int(20)), ("b", Value::Int(30))])).unwrap()), 20),
        ("with_symbols {a:20,b:30}; with_symbol a=1", Box::new(|| ruleset().with_symbols(Symbols::from([("a", Value::Int(20)), ("b", Value::Int(30))])).unwrap().with_symbol("a", Value::Int(1))), 1),
        ("with_symbols {a:1}; with_symbols {a:2}", Box::new(|| ruleset().with_symbols(Symbols::from([("a", Value::Int(1))])).unwrap().with_symbols(Symbols::from([("a", Value::Int(2))])).unwrap()), 2),
        ("with_symbol a=1,b=1,c=1; with_symbols {a:9}", Box::new(|| ruleset().with_symbol("a", Value::Int(1)).with_symbol("b", Value::Int(1)).with_symbol("c", Value::Int(1)).with_symbols(Symbols::from([("a", Value::Int(9))])).unwrap()), 9),
    ];
    for (what, mk, want) in scenarios {
        rep.cases += 1;
        let rs = mk().with_rule(sym_rule.clone()).unwrap().build();
        let os = block_on(rs.evaluate_value(&Value::None)).unwrap();
        if !matches!(&os[0].value, Ok(Value::Int(i)) if *i == want) {
            rep.fail(&["C15", "C10"], "with_symbol.exact", what, &format!("{:?}", os[0].value.as_ref().map_err(classify)), &format!("Ok(Int({want}))"));
        }
    }
    rep.finish();
}

fn check_rules(rep: &mut Report, how: &str, seq: &[&str], b: reval::Result<Builder>, dup: Option<&str>, expect: &[&str]) {
    let desc = format!("{how} {seq:?}");
    match (b, dup) {
        (Ok(_), Some(d)) => rep.fail(&["C15"], "with_rule.dup", &desc, "accepted", &format!("refused: duplicate rule name {d:?}")),
        (Err(e), None) => rep.fail(&["C15"], "with_rule.fresh", &desc, &format!("refused: {e}"), "accepted"),
        (Err(e), Some(d)) => {
            if !format!("{e}").contains(d) {
                rep.fail(&["C15"], "with_rule.dup", &desc, &format!("{e}"), &format!("refusal naming {d:?}"));
            }
        }
        (Ok(b), None) => {
            let rs = b.build();
            let os = block_on(rs.evaluate_value(&Value::None)).unwrap();
            let got: Vec<&str> = os.iter().map(|o| o.rule.name()).collect();
            if got != expect {
                rep.fail(&["C15", "C09"], "build.exact", &desc, &format!("{got:?}"), &format!("{expect:?}"));
            }
        }
    }
}

// ---- C17: conversions ----------------------------------------------------------------------------------------------------
fn family_convert() {
    let mut rep = Report::new("convert");
    macro_rules! narrow {
        ($t:ty) => {{
            let bounds: Vec<i128> = vec![<$t>::MIN as i128, <$t>::MAX as i128, (<$t>::MIN as i128).wrapping_sub(1), (<$t>::MAX as i128).wrapping_add(1), 0, -1, 1, i128::MAX, i128::MIN];
            for b in bounds {
                rep.cases += 1;
                let r = catch_unwind(|| <$t>::try_from(Value::Int(b)));
                let fits = b >= <$t>::MIN as i128 && b <= <$t>::MAX as i128 && !(stringify!($t) == "u128" && b < 0);
                match r {
                    Err(_) => rep.fail(&["C17"], concat!("try_", stringify!($t)), &format!("{}::try_from(Int({b}))", stringify!($t)), "PANIC", "Ok or Err"),
                    Ok(Ok(x)) => if !fits || x as i128 != b { rep.fail(&["C17"], concat!("try_", stringify!($t), ".overflow"), &format!("{}::try_from(Int({b}))", stringify!($t)), &format!("Ok({x})"), if fits { "the same number" } else { "Err(NumericOverflow)" }) },
                    Ok(Err(e)) => if fits || !matches!(e, reval::Error::NumericOverflow(_)) { rep.fail(&["C17"], concat!("try_", stringify!($t), ".in_range"), &format!("{}::try_from(Int({b}))", stringify!($t)), &format!("Err({e})"), if fits { "Ok" } else { "Err(NumericOverflow)" }) },
                }
            }
            for other in pool() {
                if matches!(other, Value::Int(_)) { continue; }
                rep.cases += 1;
                match <$t>::try_from(other.clone()) {
                    Err(reval::Error::UnexpectedValueType(v, _)) if same_value(&v, &other) => {}
                    r => rep.fail(&["C17"], concat!("try_", stringify!($t), ".wrong_kind"), &format!("{}::try_from({other})", stringify!($t)), &format!("{r:?}"), "Err(UnexpectedValueType(the same value, _))"),
                }
            }
        }};
    }
    narrow!(i8); narrow!(i16); narrow!(i32); narrow!(i64); narrow!(u8); narrow!(u16); narrow!(u32); narrow!(u64);
    // every non-integer scalar target: only its own kind converts; any other kind is UnexpectedValueType carrying the same value
    macro_rules! wrong_kind {
        ($t:ty, $pat:pat) => {{
            for other in pool() {
                rep.cases += 1;
                let own = matches!(other, $pat);
                match (<$t>::try_from(other.clone()), own) {
                    (Ok(_), true) => {}
                    (Err(reval::Error::UnexpectedValueType(v, _)), false) if same_value(&v, &other) => {}
                    (r, _) => rep.fail(&["C17"], concat!("try_", stringify!($t), ".wrong_kind"), &format!("{}::try_from({other})", stringify!($t)), &format!("{:?}", r.map(|_| "Ok(..)")), if own { "Ok" } else { "Err(UnexpectedValueType(the same value, _))" }),
                }
            }
        }};
    }
    wrong_kind!(bool, Value::Bool(_)); wrong_kind!(f64, Value::Float(_)); wrong_kind!(String, Value::String(_)); wrong_kind!(Decimal, Value::Decimal(_));
    wrong_kind!(DateTime<Utc>, Value::DateTime(_)); wrong_kind!(TimeDelta, Value::Duration(_)); wrong_kind!(i128, Value::Int(_));
    // collection targets: only Value::Vec / Value::Map convert; any other kind is UnexpectedValueType carrying the same value
    macro_rules! wrong_kind_coll {
        ($t:ty, $pat:pat, $id:expr) => {{
            for other in pool() {
                rep.cases += 1;
                let own = matches!(other, $pat);
                match (<$t>::try_from(other.clone()), own) {
                    (_, true) => {}
                    (Err(reval::Error::UnexpectedValueType(v, _)), false) if same_value(&v, &other) => {}
                    (r, _) => rep.fail(&["C17"], $id, &format!("{}::try_from({other})", stringify!($t)), &format!("{:?}", r.map(|_| "Ok(..)")), "Err(UnexpectedValueType(the same value, _))"),
                }
            }
        }};
    }
    // the offending value is carried WHOLE, however large: lists / maps of 17, 40 and 300 entries as the wrong kind for every target
    for n in [17usize, 40, 300] {
        let big_vec = Value::Vec((0..n as i128).map(Value::Int).collect());
        let big_map = Value::Map((0..n).map(|k| (format!("k{k:04}"), Value::Int(k as i128))).collect());
        let nested = Value::Vec(vec![big_vec.clone()]);
        for other in [&big_vec, &big_map, &nested] {
            macro_rules! carries { ($t:ty, $id:expr) => {{
                rep.cases += 1;
                match <$t>::try_from(other.clone()) {
                    Err(reval::Error::UnexpectedValueType(v, _)) if same_value(&v, other) => {}
                    r => rep.fail(&["C17"], $id, &format!("{}::try_from(<{} entries>)", stringify!($t), n), &format!("{:?}", r.map(|_| "Ok(..)").map_err(|e| { let t = format!("{e:?}"); t.chars().take(120).collect::<String>() })), "Err(UnexpectedValueType(the same value, _))"),
                }
            }}; }
            carries!(i64, "try_i64.wrong_kind"); carries!(u8, "try_u8.wrong_kind"); carries!(bool, "try_bool.wrong_kind"); carries!(f64, "try_f64.wrong_kind");
            carries!(String, "try_string.wrong_kind"); carries!(Decimal, "try_decimal.wrong_kind"); carries!(i128, "try_i128.wrong_kind");
        }
        rep.cases += 2;
        match Vec::<i64>::try_from(big_map.clone()) { Err(reval::Error::UnexpectedValueType(v, _)) if same_value(&v, &big_map) => {}, r => rep.fail(&["C17"], "try_vec.wrong_kind", &format!("Vec::<i64>::try_from(<map of {n}>)"), &format!("{:?}", r.map(|_| "Ok(..)").map_err(|_| "another error")), "Err(UnexpectedValueType(the same value, _))") }
        match BTreeMap::<String, i64>::try_from(big_vec.clone()) { Err(reval::Error::UnexpectedValueType(v, _)) if same_value(&v, &big_vec) => {}, r => rep.fail(&["C17"], "try_btree.wrong_kind", &format!("BTreeMap::<String,i64>::try_from(<list of {n}>)"), &format!("{:?}", r.map(|_| "Ok(..)").map_err(|_| "another error")), "Err(UnexpectedValueType(the same value, _))") }
    }
    wrong_kind_coll!(Vec<i64>, Value::Vec(_), "try_vec.wrong_kind");
    wrong_kind_coll!(BTreeMap<String, Value>, Value::Map(_), "try_btree_value.wrong_kind"); wrong_kind_coll!(std::collections::HashMap<String, Value>, Value::Map(_), "try_hash_value.wrong_kind");
    wrong_kind_coll!(BTreeMap<String, i64>, Value::Map(_), "try_btree.wrong_kind"); wrong_kind_coll!(std::collections::HashMap<String, i64>, Value::Map(_), "try_hash.wrong_kind");
    // u128 needs care: as i128 of MAX wraps
    for b in [0i128, 1, -1, i128::MAX, i128::MIN] {
        rep.cases += 1;
        match u128::try_from(Value::Int(b)) {
            Ok(x) => if b < 0 || x != b as u128 { rep.fail(&["C17"], "try_u128.overflow", &format!("u128::try_from(Int({b}))"), &format!("Ok({x})"), "Err or the same number") },
            Err(_) => if b >= 0 { rep.fail(&["C17"], "try_u128.in_range", &format!("u128::try_from(Int({b}))"), "Err", "Ok") },
        }
    }
    macro_rules! roundtrip {
        ($t:ty, $vals:expr) => {{
            for x in $vals {
                rep.cases += 1;
                let v: Value = Value::from(x.clone());
                match <$t>::try_from(v.clone()) {
                    Ok(y) if format!("{:?}", y) == format!("{:?}", x) => {}
                    r => rep.fail(&["C17"], concat!("roundtrip.", stringify!($t)), &format!("{}::try_from(Value::from({x:?})) via {v}", stringify!($t)), &format!("{r:?}"), &format!("Ok({x:?})")),
                }
            }
        }};
    }
    roundtrip!(i8, [i8::MIN, -1, 0, i8::MAX]); roundtrip!(i16, [i16::MIN, 0, i16::MAX]); roundtrip!(i32, [i32::MIN, 0, i32::MAX]);
    roundtrip!(i64, [i64::MIN, 0, i64::MAX]); roundtrip!(i128, [i128::MIN, 0, i128::MAX]);
    roundtrip!(u8, [0u8, u8::MAX]); roundtrip!(u16, [0u16, u16::MAX]); roundtrip!(u32, [0u32, u32::MAX]); roundtrip!(u64, [0u64, u64::MAX]);
    roundtrip!(f64, [0.0f64, -0.0, 1.5, f64::INFINITY, f64::MAX, f64::MIN_POSITIVE]);
    roundtrip!(bool, [true, false]);
    roundtrip!(String, [String::new(), "a\"b\\".to_string(), "é".to_string()]);
    roundtrip!(Decimal, [Decimal::MAX, Decimal::MIN, "1.10".parse::<Decimal>().unwrap()]);
    roundtrip!(DateTime<Utc>, [DateTime::from_timestamp(0, 0).unwrap(), DateTime::<Utc>::MIN_UTC, DateTime::<Utc>::MAX_UTC]);
    roundtrip!(TimeDelta, [TimeDelta::MAX, TimeDelta::MIN, TimeDelta::zero()]);
    // lists / maps: succeed exactly when every element converts (a non-convertible element of every kind at every position)
    for bad in pool() {
        if matches!(bad, Value::Int(_)) { continue; }
        for k in 0..3 {
            rep.cases += 3;
            let mut items = vec![Value::Int(1), Value::Int(2), Value::Int(3)];
            items[k] = bad.clone();
            if Vec::<i64>::try_from(Value::Vec(items.clone())).is_ok() { rep.fail(&["C17"], "vec.elements", &format!("Vec::<i64>::try_from({:?})", items), "Ok", "Err"); }
            let m: BTreeMap<String, Value> = ["a", "b", "c"].iter().zip(items).map(|(k, v)| (k.to_string(), v)).collect();
            if BTreeMap::<String, i64>::try_from(Value::Map(m.clone())).is_ok() { rep.fail(&["C17"], "map.elements", &format!("BTreeMap::<String,i64>::try_from({:?})", m), "Ok", "Err"); }
            if std::collections::HashMap::<String, i64>::try_from(Value::Map(m.clone())).is_ok() { rep.fail(&["C17"], "map.elements", &format!("HashMap::<String,i64>::try_from({:?})", m), "Ok", "Err"); }
        }
    }
    // all-convertible collections keep every entry, in order
    rep.cases += 3;
    let full: BTreeMap<String, Value> = [("a", 1), ("b", 2), ("c", 3)].iter().map(|(k, v)| (k.to_string(), Value::Int(*v))).collect();
    match BTreeMap::<String, i64>::try_from(Value::Map(full.clone())) { Ok(m) if m.len() == 3 && m["b"] == 2 => {}, r => rep.fail(&["C17"], "map.roundtrip", "BTreeMap::<String,i64>::try_from({a:1,b:2,c:3})", &format!("{r:?}"), "Ok with 3 entries") }
    match std::collections::HashMap::<String, Value>::try_from(Value::Map(full.clone())) { Ok(m) if m.len() == 3 => {}, r => rep.fail(&["C17"], "map.roundtrip", "HashMap::<String,Value>::try_from({a:1,b:2,c:3})", &format!("{:?}", r.map(|m| m.len())), "Ok with 3 entries") }
    match Vec::<i64>::try_from(Value::Vec(vec![Value::Int(3), Value::Int(1), Value::Int(2)])) { Ok(v) if v == vec![3, 1, 2] => {}, r => rep.fail(&["C17"], "vec.roundtrip", "Vec::<i64>::try_from([3,1,2])", &format!("{r:?}"), "Ok([3,1,2])") }
    // usize at the top of its range
    for x in [0usize, 1, i64::MAX as usize, i64::MAX as usize + 1, usize::MAX] {
        rep.cases += 1;
        if !matches!(Value::from(x), Value::Int(i) if i == x as i128) { rep.fail(&["C17"], "from_usize.exact", &format!("Value::from({x}usize)"), &format!("{:?}", Value::from(x)), &format!("Int({x})")); }
    }
    for x in [f32::MAX, f32::MIN_POSITIVE, 0.1f32, -0.0] {
        rep.cases += 1;
        if !matches!(Value::from(x), Value::Float(f) if f.to_bits() == (x as f64).to_bits()) { rep.fail(&["C17"], "from_f32.exact", &format!("Value::from({x}f32)"), &format!("{:?}", Value::from(x)), "exact widening"); }
    }
    // maps and lists built from Rust collections keep EVERY entry / element, whatever its kind (incl. None), and come back unchanged
    for v in pool() {
        let expect: BTreeMap<String, Value> = [("k".to_string(), v.clone()), ("z".to_string(), Value::Int(1))].into_iter().collect();
        let hm: std::collections::HashMap<String, Value> = expect.clone().into_iter().collect();
        rep.cases += 4;
        let from_h = Value::from(hm.clone());
        if !same_value(&from_h, &Value::Map(expect.clone())) { rep.fail(&["C17"], "from_hash.sources", &format!("Value::from(HashMap{{k: {v}, z: i1}})"), &format!("{from_h:?}"), "Map with both entries"); }
        let from_b = Value::from(expect.clone());
        if !same_value(&from_b, &Value::Map(expect.clone())) { rep.fail(&["C17"], "from_btree.sources", &format!("Value::from(BTreeMap{{k: {v}, z: i1}})"), &format!("{from_b:?}"), "Map with both entries"); }
        match std::collections::HashMap::<String, Value>::try_from(Value::Map(expect.clone())) {
            Ok(m) if m.len() == 2 && same_value(&m["k"], &v) => {}
            r => rep.fail(&["C17"], "try_hash_value.ok", &format!("HashMap::<String,Value>::try_from({{k: {v}, z: i1}})"), &format!("{:?}", r.map(|m| m.len())), "Ok with both entries"),
        }
        let from_v = Value::from(vec![v.clone(), Value::Int(1)]);
        if !same_value(&from_v, &Value::Vec(vec![v.clone(), Value::Int(1)])) { rep.fail(&["C17"], "from_vec.elements", &format!("Value::from(vec![{v}, i1])"), &format!("{from_v:?}"), "Vec with both elements in order"); }
        let opt: std::collections::HashMap<String, Option<Value>> = [("k".to_string(), Some(v.clone())), ("n".to_string(), None)].into_iter().collect();
        rep.cases += 1;
        let from_o = Value::from(opt);
        let expect_o: BTreeMap<String, Value> = [("k".to_string(), v.clone()), ("n".to_string(), Value::None)].into_iter().collect();
        if !same_value(&from_o, &Value::Map(expect_o)) { rep.fail(&["C17"], "from_hash.sources", &format!("Value::from(HashMap{{k: Some({v}), n: None}})"), &format!("{from_o:?}"), "Map with k and n: none"); }
    }
    rep.cases += 1;
    match Vec::<u8>::try_from(Value::from(vec![1u8, 2, 255])) { Ok(v) if v == vec![1, 2, 255] => {}, r => rep.fail(&["C17"], "vec.roundtrip", "Vec::<u8>::try_from(Value::from(vec![1,2,255]))", &format!("{r:?}"), "Ok([1,2,255])") }
    rep.finish();
}

// ---- C13: serializer ------------------------------------------------------------------------------------------------------
mod ser_cases {
    use serde::Serialize;
    use std::collections::{BTreeMap, HashMap};
    #[derive(Serialize)] pub struct Unit;
    #[derive(Serialize)] pub struct New(pub u32);
    #[derive(Serialize)] pub struct Tup(pub u8, pub String);
    #[derive(Serialize)] pub struct St { pub a: u8, pub b: Option<bool>, pub c: Vec<i64>, pub d: Inner }
    #[derive(Serialize)] pub struct Inner { pub x: f64, pub e: En }
    #[derive(Serialize)] pub enum En { U, N(u16), T(u8, bool), S { k: i8 } }
    #[derive(Serialize)] pub struct Big { pub v: u128 }
    #[derive(Serialize, PartialEq, Eq, PartialOrd, Ord)] pub enum Color { Red, Green }
    #[derive(Serialize)] pub struct One<U>(pub f64, #[serde(skip)] pub std::marker::PhantomData<U>);
    #[derive(Serialize)] pub struct Zero();
    #[derive(Serialize)] pub enum Wrap { O(Option<u8>), U(()), V(Vec<Option<u8>>), E(Vec<u8>), S(Unit) }
    pub struct FailsLong(pub String);
    impl Serialize for FailsLong {
        fn serialize<S: serde::Serializer>(&self, _s: S) -> Result<S::Ok, S::Error> { Err(serde::ser::Error::custom(&self.0)) }
    }
    pub struct Fails;
    impl Serialize for Fails {
        fn serialize<S: serde::Serializer>(&self, _s: S) -> Result<S::Ok, S::Error> { Err(serde::ser::Error::custom("boom")) }
    }
    #[derive(Serialize)] pub struct HasFails { pub ok: u8, pub bad: Fails }
    pub struct DupKeys;
    impl Serialize for DupKeys {
        fn serialize<S: serde::Serializer>(&self, s: S) -> Result<S::Ok, S::Error> {
            use serde::ser::SerializeMap;
            let mut m = s.serialize_map(Some(3))?;
            m.serialize_entry("k", &1u8)?;
            m.serialize_entry("j", &7u8)?;
            m.serialize_entry("k", &2u8)?;
            m.end()
        }
    }
    pub struct DupKeysSplit;
    impl Serialize for DupKeysSplit {
        fn serialize<S: serde::Serializer>(&self, s: S) -> Result<S::Ok, S::Error> {
            use serde::ser::SerializeMap;
            let mut m = s.serialize_map(None)?;
            m.serialize_key("k")?; m.serialize_value(&1u8)?;
            m.serialize_key("k")?; m.serialize_value(&2u8)?;
            m.end()
        }
    }
    #[derive(Serialize)] pub struct Base { pub retries: u8, pub name: String }
    #[derive(Serialize)] pub struct Over { #[serde(flatten)] pub base: Base, pub retries: u8 }
    pub fn int_key_map() -> BTreeMap<u8, u8> { [(1u8, 2u8)].into_iter().collect() }
    pub fn str_key_map() -> HashMap<String, i32> { [("k".to_string(), -5)].into_iter().collect() }
}

fn family_ser() {
    use reval::value::ser::ValueSerializer;
    use serde::Serialize;
    use ser_cases::*;
    let mut rep = Report::new("ser");
    fn map(items: Vec<(&str, Value)>) -> Value { Value::Map(items.into_iter().map(|(k, v)| (k.to_string(), v)).collect()) }
    macro_rules! case {
        ($what:expr, $v:expr, $expect:expr) => {{
            rep.cases += 1;
            let expect: Result<Value, ()> = $expect;
            let r = catch_unwind(AssertUnwindSafe(|| $v.serialize(ValueSerializer)));
            match (r, &expect) {
                (Err(_), _) => rep.fail(&["C13"], "ser.panic", $what, "PANIC", &format!("{expect:?}")),
                (Ok(Ok(v)), Ok(e)) if same_value(&v, e) => {}
                (Ok(Err(_)), Err(())) => {}
                (Ok(o), _) => rep.fail(&["C13"], "ser.image", $what, &format!("{:?}", o.map_err(|e| e.to_string())), &format!("{expect:?}")),
            }
        }};
    }
    macro_rules! ints { ($($t:ty),*) => {$(
        for x in [<$t>::MIN, <$t>::MAX, 0 as $t, 1 as $t] {
            let fits = (x as i128 as $t) == x && ((x as i128) >= 0 || <$t>::MIN != 0);
            case!(&format!("{}::{x}", stringify!($t)), x, if fits { Ok(Value::Int(x as i128)) } else { Err(()) });
        }
    )*}; }
    ints!(i8, i16, i32, i64, i128, u8, u16, u32, u64);
    for x in [0u128, 1, i128::MAX as u128, i128::MAX as u128 + 1, u128::MAX] {
        case!(&format!("u128::{x}"), x, if x <= i128::MAX as u128 { Ok(Value::Int(x as i128)) } else { Err(()) });
        case!(&format!("Big{{v:{x}}}"), Big { v: x }, if x <= i128::MAX as u128 { Ok(map(vec![("v", Value::Int(x as i128))])) } else { Err(()) });
    }
    for x in [0.0f64, -0.0, 1.5, f64::NAN, f64::INFINITY, f64::NEG_INFINITY, f64::MAX, f64::MIN_POSITIVE] { case!(&format!("f64 {x}"), x, Ok(Value::Float(x))); }
    for x in [0.0f32, -0.0, 1.5, f32::NAN, f32::INFINITY, f32::MAX, f32::MIN_POSITIVE, 0.1] { case!(&format!("f32 {x}"), x, Ok(Value::Float(x as f64))); }
    case!("true", true, Ok(Value::Bool(true)));
    case!("char", 'é', Ok(Value::String("é".into())));
    case!("str", "a\"b", Ok(Value::String("a\"b".into())));
    case!("unit", (), Ok(Value::None));
    case!("None", Option::<u8>::None, Ok(Value::None));
    case!("Some(Some(3))", Some(Some(3u8)), Ok(Value::Int(3)));
    case!("Unit struct", Unit, Ok(Value::None));
    case!("newtype", New(7), Ok(Value::Int(7)));
    case!("tuple struct", Tup(1, "x".into()), Ok(Value::Vec(vec![Value::Int(1), Value::String("x".into())])));
    case!("tuple", (1u8, "x", false), Ok(Value::Vec(vec![Value::Int(1), Value::String("x".into()), Value::Bool(false)])));
    case!("seq order", vec![3i32, 1, 2], Ok(Value::Vec(vec![Value::Int(3), Value::Int(1), Value::Int(2)])));
    case!("empty seq", Vec::<u8>::new(), Ok(Value::Vec(vec![])));
    case!("bytes", serde_bytes_like(), Ok(Value::Vec(vec![Value::Int(0), Value::Int(255)])));
    case!("nested struct", St { a: 1, b: None, c: vec![-1, 2], d: Inner { x: 0.5, e: En::S { k: -3 } } },
          Ok(map(vec![("a", Value::Int(1)), ("b", Value::None), ("c", Value::Vec(vec![Value::Int(-1), Value::Int(2)])),
                      ("d", map(vec![("x", Value::Float(0.5)), ("e", map(vec![("S", map(vec![("k", Value::Int(-3))]))]))]))])));
    case!("unit variant", En::U, Ok(Value::String("U".into())));
    case!("newtype variant", En::N(9), Ok(map(vec![("N", Value::Int(9))])));
    case!("tuple variant", En::T(1, true), Ok(map(vec![("T", Value::Vec(vec![Value::Int(1), Value::Bool(true)]))])));
    case!("struct variant", En::S { k: 4 }, Ok(map(vec![("S", map(vec![("k", Value::Int(4))]))])));
    case!("string-keyed map", str_key_map(), Ok(map(vec![("k", Value::Int(-5))])));
    case!("int-keyed map", int_key_map(), Err(()));
    // a key emitted twice: the later value wins (as in serde_json), on both the entry and the key/value path
    case!("duplicate key via serialize_entry", DupKeys, Ok(map(vec![("j", Value::Int(7)), ("k", Value::Int(2))])));
    case!("duplicate key via serialize_key/value", DupKeysSplit, Ok(map(vec![("k", Value::Int(2))])));
    case!("flattened struct overridden by outer field", Over { base: Base { retries: 1, name: "n".into() }, retries: 5 },
          Ok(map(vec![("name", Value::String("n".into())), ("retries", Value::Int(5))])));
    // map keys: only strings (unit enum variants, chars, numbers, bools are "unsupported map key" errors, never renamed or merged)
    case!("map keyed by unit variants", [(Color::Red, 1u8), (Color::Green, 2u8)].into_iter().collect::<BTreeMap<Color, u8>>(), Err(()));
    case!("map keyed by chars", [('a', 1u8)].into_iter().collect::<BTreeMap<char, u8>>(), Err(()));
    case!("map keyed by bools", [(true, 1u8)].into_iter().collect::<BTreeMap<bool, u8>>(), Err(()));
    // lists of two-cell rows stay lists of lists, in order, with repeats (they are not association lists)
    case!("vec of (String, i32)", vec![("b".to_string(), 1i32), ("a".to_string(), 2), ("b".to_string(), 3)],
          Ok(Value::Vec(vec![Value::Vec(vec![Value::String("b".into()), Value::Int(1)]), Value::Vec(vec![Value::String("a".into()), Value::Int(2)]), Value::Vec(vec![Value::String("b".into()), Value::Int(3)])])));
    case!("vec of two-cell string rows", vec![vec!["k".to_string(), "v".to_string()]], Ok(Value::Vec(vec![Value::Vec(vec![Value::String("k".into()), Value::String("v".into())])])));
    case!("tuple (String, u8)", ("k".to_string(), 1u8), Ok(Value::Vec(vec![Value::String("k".into()), Value::Int(1)])));
    // tuple structs are ordered lists whatever their length (one element is still a list, not the bare element)
    case!("tuple struct of one (skipped second field)", One::<u8>(1.5, std::marker::PhantomData), Ok(Value::Vec(vec![Value::Float(1.5)])));
    case!("tuple struct of none", Zero(), Ok(Value::Vec(vec![])));
    case!("tuple of one", (7u8,), Ok(Value::Vec(vec![Value::Int(7)])));
    case!("array of one", [7u8], Ok(Value::Vec(vec![Value::Int(7)])));
    // enum variants are tagged by name whatever the payload is (a payload that is none / empty is still a payload)
    case!("newtype variant of None", Wrap::O(None), Ok(map(vec![("O", Value::None)])));
    case!("newtype variant of Some", Wrap::O(Some(3)), Ok(map(vec![("O", Value::Int(3))])));
    case!("newtype variant of ()", Wrap::U(()), Ok(map(vec![("U", Value::None)])));
    case!("newtype variant of unit struct", Wrap::S(Unit), Ok(map(vec![("S", Value::None)])));
    case!("newtype variant of [None]", Wrap::V(vec![None]), Ok(map(vec![("V", Value::Vec(vec![Value::None]))])));
    case!("newtype variant of []", Wrap::E(vec![]), Ok(map(vec![("E", Value::Vec(vec![]))])));
    case!("vec of newtype variants of None", vec![Wrap::O(None), Wrap::U(())], Ok(Value::Vec(vec![map(vec![("O", Value::None)]), map(vec![("U", Value::None)])])));
    // a failing Serialize impl whose message is long and multi-byte (error paths that cut or quote the message)
    for unit in ["é", "日", "𝔘"] {
        for n in [60usize, 200, 1000] {
            for pad in 0..4usize {
                let msg = format!("{}{}", "x".repeat(pad), unit.repeat(n));
                case!(&format!("failing Serialize with a {}-byte message", msg.len()), FailsLong(msg.clone()), Err(()));
                case!(&format!("failing element with a {}-byte message", msg.len()), vec![FailsLong(msg.clone())], Err(()));
            }
        }
    }
    case!("failing Serialize", Fails, Err(()));
    case!("failing field", HasFails { ok: 1, bad: Fails }, Err(()));
    case!("failing element", vec![Some(Big { v: 1 }), Some(Big { v: u128::MAX })], Err(()));
    rep.finish();
}
fn serde_bytes_like() -> impl serde::Serialize {
    struct B;
    impl serde::Serialize for B {
        fn serialize<S: serde::Serializer>(&self, s: S) -> Result<S::Ok, S::Error> { s.serialize_bytes(&[0u8, 255]) }
    }
    B
}

// ---- C06: parsing never panics (bounded: token sequences up to length 3 + targeted out-of-range / escape / unicode cases) ----
fn family_parse(deep: bool) {
    let mut rep = Report::new(if deep { "parse-deep" } else { "parse" });
    let toks: Vec<&str> = vec![
        "if", "then", "else", "and", "or", "==", "=", "!=", ">", "<", ">=", "<=", "+", "-", "*", "/", "%", "!", "&", "|", "^", "@",
        "contains", "in", "(", ")", "[", "]", "{", "}", ",", ":", ";", ".", "x", "i1", "f1.5", "d1.5", "\"s\"", "0x1F", "0o7", "0b1",
        "true", "false", "none", "int", "is_some", "datetime", "5", "// c\n", "name", "é", "\"\\q\"", "i99999999999999999999999999999999999999999",
    ];
    let mut try_parse = |rep: &mut Report, text: &str| {
        rep.cases += 2;
        let t = text.to_string();
        if catch_unwind(AssertUnwindSafe(|| { let _ = Expr::parse(&t); })).is_err() {
            rep.fail(&["C06"], "Expr::parse", text, "PANIC", "Ok(tree) or Err(parse error)");
        }
        if catch_unwind(AssertUnwindSafe(|| { let _ = Rule::parse(&t); })).is_err() {
            rep.fail(&["C06"], "Rule::parse", text, "PANIC", "Ok(rule) or Err(parse error)");
        }
    };
    for a in &toks {
        try_parse(&mut rep, a);
        for b in &toks {
            try_parse(&mut rep, &format!("{a} {b}"));
            try_parse(&mut rep, &format!("{a}{b}"));
            if deep {
                for c in &toks {
                    try_parse(&mut rep, &format!("{a} {b} {c}"));
                }
            }
        }
    }
    // out-of-range numerals in every numeric position
    let huge = "9".repeat(60);
    for t in [format!("i{huge}"), format!("i-{huge}"), format!("0x{}", "F".repeat(40)), format!("0o{}", "7".repeat(60)), format!("0b{}", "1".repeat(200)),
              format!("f{huge}"), format!("f1e{huge}"), format!("f1e-{huge}"), format!("d{huge}"), format!("d0.{huge}"), format!("a.{huge}"),
              format!("a.{huge}.{huge}"), format!("[i1].{huge}"), format!("a.18446744073709551615"), format!("a.18446744073709551616"),
              format!("@name: i{huge}; x"), format!("@k: [i{huge}]; x"), format!("// r\n@m: {{a: d{huge}}}; x")] {
        try_parse(&mut rep, &t);
    }
    // "an integer or decimal literal or a list index that is out of range is reported as a parse error": must be Err, in every radix;
    // the hex / octal forms use only digits that are also valid in a smaller radix, where the same text would be in range
    let z = |n: usize| "0".repeat(n);
    for t in [format!("i{huge}"), format!("i-{huge}"), "i170141183460469231731687303715884105728".to_string(), "i-170141183460469231731687303715884105729".to_string(),
              format!("0x8{}", z(31)), format!("0x1{}", z(32)), format!("0o2{}", z(42)), format!("0o1{}", z(43)), format!("0b1{}", z(127)),
              format!("d{huge}"), "d79228162514264337593543950336".to_string(), "a.18446744073709551616".to_string(), format!("a.{huge}"),
              format!("[i1, 0x1{}]", z(32)), format!("f1 + 0o1{}", z(43))] {
        rep.cases += 1;
        match catch_unwind(AssertUnwindSafe(|| Expr::parse(&t).is_err())) {
            Ok(true) => {}
            Ok(false) => rep.fail(&["C06"], "Expr::parse", &t, "Ok(tree)", "Err(parse error): the literal is out of range"),
            Err(_) => rep.fail(&["C06"], "Expr::parse", &t, "PANIC", "Err(parse error)"),
        }
    }
    // numerals of every length in every numeric position (mantissa / fraction / exponent / index)
    for k in 1..=45usize {
        let nines = "9".repeat(k);
        let zeros = "0".repeat(k);
        for t in [format!("i{nines}"), format!("i-{nines}"), format!("d{nines}"), format!("d-{nines}"), format!("d0.{nines}"), format!("d0.{zeros}1"),
                  format!("d{nines}.{nines}"), format!("d.{nines}"), format!("f{nines}"), format!("f0.{zeros}1"), format!("f1e{nines}"),
                  format!("0x{}", "f".repeat(k)), format!("0o{}", "7".repeat(k * 2)), format!("0b{}", "1".repeat(k * 3)), format!("a.{nines}"),
                  format!("[i1, d0.{zeros}1]"), format!("@m: d0.{zeros}1; x")] {
            try_parse(&mut rep, &t);
        }
    }
    // text the lexer rejects, followed by k ASCII bytes and then multi-byte characters (error paths that quote the input)
    for bad in ["#", "$", "?", "\"", "é", "~", "`", "\\"] {
        for k in 0..24usize {
            for tail in ["é", "ééé", "𝔘", "\u{7ff}\u{800}"] {
                try_parse(&mut rep, &format!("i1 + {bad}{}{tail} + i2", "a".repeat(k)));
                try_parse(&mut rep, &format!("{bad}{}{tail}", "a".repeat(k)));
                try_parse(&mut rep, &format!("// r\n@k: {bad}{}{tail}; x", " ".repeat(k)));
            }
        }
    }
    // escapes: every single-character escape, unicode forms, truncated forms
    for c in 0u8..128 {
        try_parse(&mut rep, &format!("\"\\{}\"", c as char));
        try_parse(&mut rep, &format!("\"a\\{}", c as char));
    }
    // long multi-byte text where the grammar does not allow it (error messages that quote or cut the offending text at a byte offset)
    for unit in ["日", "é", "𝔘", "a\u{301}"] {
        for n in [40usize, 100, 300] {
            for pad in 0..4usize {
                let long = unit.repeat(n);
                try_parse(&mut rep, &format!("i1 {}\"{long}\"", "a".repeat(pad)));
                try_parse(&mut rep, &format!("{}{long} i1", "a".repeat(pad)));
                try_parse(&mut rep, &format!("// {long}\n@k{}: \"{long}\" \"{long}\"; x", "a".repeat(pad)));
                try_parse(&mut rep, &format!("f{}(\"{long}\" \"x\")", "a".repeat(pad)));
            }
        }
    }
    // unknown / truncated escapes next to multi-byte characters (error paths that quote the escape by position)
    for pre in ["", "é", "éé", "Zoë", "日本", "𝔘", "a\u{301}"] {
        for esc in ["\\q", "\\!", "\\é", "\\日", "\\𝔘", "\\ ", "\\u{zz}", "\\u{110000}", "\\u{D800}", "\\u", "\\"] {
            for post in ["", "é", "x", "日"] {
                try_parse(&mut rep, &format!("\"{pre}{esc}{post}\""));
                try_parse(&mut rep, &format!("name == \"{pre}{esc}{post}\""));
                try_parse(&mut rep, &format!("// r\n@k: \"{pre}{esc}{post}\"; x"));
            }
        }
    }
    for u in ["\\u{41}", "\\u{110000}", "\\u{D800}", "\\u{}", "\\u{zz}", "\\u{41", "\\u41}", "\\u", "\\u{FFFFFFFFFF}", "\\", "\\u{0041}\\u{}x"] {
        try_parse(&mut rep, &format!("\"{u}\""));
        try_parse(&mut rep, &format!("@name: \"{u}\"; x"));
    }
    // non-ASCII and control characters in every position of a small template
    for ch in ['é', '\u{0}', '\u{7f}', '\u{2028}', '\u{feff}', '𝔘', '\t', '\r'] {
        for tpl in ["{}", "a{}", "{}a", "\"{}\"", "i1{}", "a.{}", ":{}", "// {}\nx", "@{}: i1; x", "f({})", "[{}]", "{{a: {}}}"] {
            try_parse(&mut rep, &tpl.replace("{}", &ch.to_string()));
        }
    }
    // moderately deep nesting (stack depth itself is C19, not claimed)
    for n in [1usize, 10, 50] {
        try_parse(&mut rep, &format!("{}i1{}", "(".repeat(n), ")".repeat(n)));
        try_parse(&mut rep, &format!("{}i1{}", "[".repeat(n), "]".repeat(n)));
        try_parse(&mut rep, &format!("{}i1", "-".repeat(n)));
        try_parse(&mut rep, &format!("a{}", ".0".repeat(n)));
    }
    rep.finish();
}

// ---- text / constructor path: what the grammar actions and the Expr constructors BUILD ------------------------------------------
// The evaluator families above hand the same tree to the real crate and to the oracle, so a constructor (or a grammar action) that
// rewrites what it is given -- folds `!!x`, turns `!(a > b)` into `a <= b`, drops the condition of `if c then X else X`, folds a cast of
// a literal, reads `facts.x` as `x` -- is invisible to them.  Here the EXPECTED tree is written with the raw enum variants.
fn bx(e: Expr) -> Box<Expr> { Box::new(e) }
fn raw_unary(name: &str, x: Expr) -> Expr {
    match name {
        "not" => Expr::Not(bx(x)), "neg" => Expr::Neg(bx(x)), "some" => Expr::Some(bx(x)), "none" => Expr::None(bx(x)), "int" => Expr::Int(bx(x)),
        "float" => Expr::Float(bx(x)), "dec" => Expr::Dec(bx(x)), "datetime" => Expr::DateTime(bx(x)), "duration" => Expr::Duration(bx(x)),
        "uppercase" => Expr::UpperCase(bx(x)), "lowercase" => Expr::LowerCase(bx(x)), "trim" => Expr::Trim(bx(x)), "round" => Expr::Round(bx(x)),
        "floor" => Expr::Floor(bx(x)), "fract" => Expr::Fract(bx(x)), "year" => Expr::Year(bx(x)), "month" => Expr::Month(bx(x)), "week" => Expr::Week(bx(x)),
        "day" => Expr::Day(bx(x)), "hour" => Expr::Hour(bx(x)), "minute" => Expr::Minute(bx(x)), "second" => Expr::Second(bx(x)),
        other => panic!("raw_unary {other}"),
    }
}
fn raw_binary(name: &str, l: Expr, r: Expr) -> Expr {
    match name {
        "mult" => Expr::Mult(bx(l), bx(r)), "div" => Expr::Div(bx(l), bx(r)), "rem" => Expr::Rem(bx(l), bx(r)), "add" => Expr::Add(bx(l), bx(r)), "sub" => Expr::Sub(bx(l), bx(r)),
        "eq" => Expr::Equals(bx(l), bx(r)), "neq" => Expr::NotEquals(bx(l), bx(r)), "gt" => Expr::GreaterThan(bx(l), bx(r)), "gte" => Expr::GreaterThanEquals(bx(l), bx(r)),
        "lt" => Expr::LessThan(bx(l), bx(r)), "lte" => Expr::LessThanEquals(bx(l), bx(r)), "and" => Expr::And(bx(l), bx(r)), "or" => Expr::Or(bx(l), bx(r)),
        "bitwise_and" => Expr::BitAnd(bx(l), bx(r)), "bitwise_or" => Expr::BitOr(bx(l), bx(r)), "bitwise_xor" => Expr::BitXor(bx(l), bx(r)), "contains" => Expr::Contains(bx(l), bx(r)),
        other => panic!("raw_binary {other}"),
    }
}
fn text_tags(top: &str) -> Vec<&'static str> {
    match top {
        "not" | "and" | "or" => vec!["C02", "C03", "C04"],
        "eq" | "neq" | "gt" | "gte" | "lt" | "lte" | "some" | "none" | "contains" => vec!["C02", "C04"],
        "iif" => vec!["C02", "C05", "C03", "C04"],
        "int" | "float" | "dec" | "datetime" | "duration" => vec!["C02", "C01"],
        "index" | "ref" | "symbol" => vec!["C10"],
        _ => vec!["C02"],
    }
}
/// run `built` (made by constructors or by the parser) on the real crate, `expected_tree` (raw variants) through the oracle
fn check_built(rep: &mut Report, what: &str, top: &str, built: &Expr, expected_tree: &Expr, facts: &Value) {
    rep.cases += 1;
    let syms = BTreeMap::new();
    let rules_real = vec![("r".to_string(), built.clone())];
    let rules_model = vec![("r".to_string(), expected_tree.clone())];
    let (exp_out, exp_log) = run_model(&rules_model, &syms, facts);
    match run_real(&rules_real, &syms, facts, 1) {
        Err(e) => rep.fail(&["C02"], "text.setup", what, &e, "ruleset builds"),
        Ok(runs) => {
            let run = &runs[0];
            match &run.outcomes {
                Err(e) => rep.fail(&["C01"], "text.safety", what, e, &format!("{:?}", exp_out[0].1)),
                Ok(os) => {
                    if !same_res(&os[0].1, &exp_out[0].1) {
                        let mut t = text_tags(top);
                        if matches!(os[0].1, Ok(_)) && matches!(exp_out[0].1, Err(RErr::InvalidCast) | Err(RErr::OutOfBounds)) && !t.contains(&"C01") { t.push("C01"); }
                        rep.fail(&t, &format!("ctor_{top}.exact"), &format!("{what}   [facts = {facts}]"), &format!("{:?}", os[0].1), &format!("{:?} (the value of the tree {expected_tree})", exp_out[0].1));
                    } else if run.log != exp_log {
                        rep.fail(&["C05"], &format!("ctor_{top}.exact"), what, &format!("calls {:?}", run.log.iter().map(|c| format!("{}({})", c.name, c.arg)).collect::<Vec<_>>()),
                                 &format!("{:?}", exp_log.iter().map(|c| format!("{}({})", c.name, c.arg)).collect::<Vec<_>>()));
                    }
                }
            }
        }
    }
}

fn family_text() {
    let mut rep = Report::new("text");
    let mut fm = BTreeMap::new();
    fm.insert("x".to_string(), Value::Int(5));
    fm.insert("n".to_string(), Value::None);
    fm.insert("2024".to_string(), Value::Int(24));
    let mut inner = BTreeMap::new();
    inner.insert("id".to_string(), Value::Int(1));
    fm.insert("facts".to_string(), Value::Map(inner));
    let facts = Value::Map(fm);
    let leaves: Vec<Value> = vec![Value::Int(1), Value::Int(0), Value::Bool(true), Value::Bool(false), Value::None, Value::Float(1e39), Value::Float(f64::NAN), Value::Float(2.5),
                                  Value::Int(i128::MAX), Value::String("true".into()), Value::String("é".into()), Value::Vec(vec![]), Value::Decimal(rust_decimal::Decimal::new(25, 1))];
    let uns = unary_ops();
    let bins = binary_ops();
    let pairs: Vec<(Value, Value)> = vec![(Value::Int(1), Value::Int(2)), (Value::None, Value::Int(10)), (Value::Int(10), Value::None), (Value::Bool(true), Value::Bool(false)),
                                          (Value::Bool(false), Value::Int(1)), (Value::Float(2.5), Value::Int(1)), (Value::Int(1), Value::Int(1))];
    // constructor(leaf), constructor(constructor(leaf)), constructor(constructor(leaf, leaf)): every pair of operators
    for (n1, f1) in &uns {
        for a in &leaves {
            let la = Expr::Value(a.clone());
            check_built(&mut rep, &format!("Expr::{n1}({a})"), n1, &f1(la.clone()), &raw_unary(n1, la.clone()), &facts);
            for (n2, f2) in &uns {
                check_built(&mut rep, &format!("Expr::{n1}(Expr::{n2}({a}))"), n1, &f1(f2(la.clone())), &raw_unary(n1, raw_unary(n2, la.clone())), &facts);
            }
        }
        for (n2, f2) in &bins {
            for (a, b) in &pairs {
                let (la, lb) = (Expr::Value(a.clone()), Expr::Value(b.clone()));
                check_built(&mut rep, &format!("Expr::{n1}(Expr::{n2}({a}, {b}))"), n1, &f1(f2(la.clone(), lb.clone())), &raw_unary(n1, raw_binary(n2, la, lb)), &facts);
            }
        }
    }
    for (n1, f1) in &bins {
        for (a, b) in &pairs {
            let (la, lb) = (Expr::Value(a.clone()), Expr::Value(b.clone()));
            check_built(&mut rep, &format!("Expr::{n1}({a}, {b})"), n1, &f1(la.clone(), lb.clone()), &raw_binary(n1, la.clone(), lb.clone()), &facts);
            // an observable operand on either side (a constructor must not look at how an operand is written)
            let pa = Expr::Function("probe".into(), bx(la.clone()));
            let pb = Expr::Function("probe".into(), bx(lb.clone()));
            check_built(&mut rep, &format!("Expr::{n1}(probe({a}), {b})"), n1, &f1(Expr::func("probe", la.clone()), lb.clone()), &raw_binary(n1, pa.clone(), lb.clone()), &facts);
            check_built(&mut rep, &format!("Expr::{n1}({a}, probe({b}))"), n1, &f1(la.clone(), Expr::func("probe", lb.clone())), &raw_binary(n1, la.clone(), pb.clone()), &facts);
            check_built(&mut rep, &format!("Expr::{n1}(probe({a}), probe({a}))"), n1, &f1(Expr::func("probe", la.clone()), Expr::func("probe", la.clone())), &raw_binary(n1, pa.clone(), pa.clone()), &facts);
        }
    }
    // if: equal branches, literal conditions
    let conds = vec![Expr::Function("probe".into(), bx(Expr::Value(Value::Bool(true)))), Expr::Function("probe".into(), bx(Expr::Value(Value::Int(5)))),
                     Expr::Div(bx(Expr::Value(Value::Int(1))), bx(Expr::Value(Value::Int(0)))), Expr::Value(Value::Bool(true)), Expr::Value(Value::None), Expr::Value(Value::Int(1))];
    let branches = vec![(Expr::Value(Value::Int(0)), Expr::Value(Value::Int(0))), (Expr::Value(Value::Int(1)), Expr::Value(Value::Int(2))),
                        (Expr::Function("probe".into(), bx(Expr::Value(Value::Int(1)))), Expr::Function("probe".into(), bx(Expr::Value(Value::Int(1)))))];
    for c in &conds {
        for (y, n) in &branches {
            check_built(&mut rep, &format!("Expr::iif({c}, {y}, {n})"), "iif", &Expr::iif(c.clone(), y.clone(), n.clone()), &Expr::If(bx(c.clone()), bx(y.clone()), bx(n.clone())), &facts);
        }
    }
    // index / reference / symbol / function constructors
    let two_probes = || vec![Expr::Function("probe".into(), bx(Expr::Value(Value::Int(1)))), Expr::Function("probe".into(), bx(Expr::Value(Value::Int(2))))];
    let shapes: Vec<(Expr, Expr, &str)> = vec![
        (Expr::index(Expr::reff("facts"), Index::Map("x".into())), Expr::Index(bx(Expr::Reference("facts".into())), Index::Map("x".into())), "index"),
        (Expr::index(Expr::reff("facts"), Index::Map("missing".into())), Expr::Index(bx(Expr::Reference("facts".into())), Index::Map("missing".into())), "index"),
        (Expr::index(Expr::reff("facts"), Index::Map("facts".into())), Expr::Index(bx(Expr::Reference("facts".into())), Index::Map("facts".into())), "index"),
        (Expr::index(Expr::Vec(two_probes()), Index::Vec(1)), Expr::Index(bx(Expr::Vec(two_probes())), Index::Vec(1)), "index"),
        (Expr::index(Expr::Vec(two_probes()), Index::Vec(7)), Expr::Index(bx(Expr::Vec(two_probes())), Index::Vec(7)), "index"),
        (Expr::index(Expr::reff("facts"), Index::from("2024")), Expr::Index(bx(Expr::Reference("facts".into())), Index::Map("2024".into())), "index"),
        (Expr::index(Expr::reff("facts"), Index::from("0".to_string())), Expr::Index(bx(Expr::Reference("facts".into())), Index::Map("0".into())), "index"),
        (Expr::index(Expr::Vec(two_probes()), Index::from("0")), Expr::Index(bx(Expr::Vec(two_probes())), Index::Map("0".into())), "index"),
        (Expr::index(Expr::Vec(two_probes()), Index::from(0usize)), Expr::Index(bx(Expr::Vec(two_probes())), Index::Vec(0)), "index"),
        (Expr::reff("x"), Expr::Reference("x".into()), "ref"), (Expr::symbol("x"), Expr::Symbol("x".into()), "symbol"),
        (Expr::func("probe", Expr::none_value()), Expr::Function("probe".into(), bx(Expr::Value(Value::None))), "ref"),
    ];
    for (built, raw, top) in &shapes {
        check_built(&mut rep, &format!("{built}"), top, built, raw, &facts);
    }
    // parsed text against hand-written trees (what the grammar actions build)
    let i = |n: i128| Expr::Value(Value::Int(n));
    let r = |n: &str| Expr::Reference(n.to_string());
    let p = |e: Expr| Expr::Function("probe".into(), bx(e));
    let texts: Vec<(&str, Expr, &str)> = vec![
        ("!!i1", Expr::Not(bx(Expr::Not(bx(i(1))))), "not"),
        ("!!true", Expr::Not(bx(Expr::Not(bx(Expr::Value(Value::Bool(true)))))), "not"),
        ("!(n > i10)", Expr::Not(bx(Expr::GreaterThan(bx(r("n")), bx(i(10))))), "not"),
        ("!(x <= n)", Expr::Not(bx(Expr::LessThanEquals(bx(r("x")), bx(r("n"))))), "not"),
        ("!(n == n)", Expr::Not(bx(Expr::Equals(bx(r("n")), bx(r("n"))))), "not"),
        ("if probe(x) then i0 else i0", Expr::If(bx(p(r("x"))), bx(i(0)), bx(i(0))), "iif"),
        ("int(f1e39)", Expr::Int(bx(Expr::Value(Value::Float(1e39)))), "int"),
        ("int(float(i170141183460469231731687303715884105727))", Expr::Int(bx(Expr::Float(bx(i(i128::MAX))))), "int"),
        ("float(int(f2.5))", Expr::Float(bx(Expr::Int(bx(Expr::Value(Value::Float(2.5)))))), "float"),
        ("facts.x", Expr::Index(bx(r("facts")), Index::Map("x".into())), "index"),
        ("facts.missing", Expr::Index(bx(r("facts")), Index::Map("missing".into())), "index"),
        ("facts.facts", Expr::Index(bx(r("facts")), Index::Map("facts".into())), "index"),
        ("facts.facts.id", Expr::Index(bx(Expr::Index(bx(r("facts")), Index::Map("facts".into()))), Index::Map("id".into())), "index"),
        ("(facts).facts.id", Expr::Index(bx(Expr::Index(bx(r("facts")), Index::Map("facts".into()))), Index::Map("id".into())), "index"),
        ("facts.0", Expr::Index(bx(r("facts")), Index::Vec(0)), "index"),
        ("x and false", Expr::And(bx(r("x")), bx(Expr::Value(Value::Bool(false)))), "and"),
        ("probe(true) or true", Expr::Or(bx(p(Expr::Value(Value::Bool(true)))), bx(Expr::Value(Value::Bool(true)))), "or"),
        ("probe(true) and false", Expr::And(bx(p(Expr::Value(Value::Bool(true)))), bx(Expr::Value(Value::Bool(false)))), "and"),
        ("x * i1", Expr::Mult(bx(r("x")), bx(i(1))), "mult"),
        ("n + i0", Expr::Add(bx(r("n")), bx(i(0))), "add"),
        ("-(-x)", Expr::Neg(bx(Expr::Neg(bx(r("x"))))), "neg"),
        ("x == x", Expr::Equals(bx(r("x")), bx(r("x"))), "eq"),
        ("n != n", Expr::NotEquals(bx(r("n")), bx(r("n"))), "neq"),
        ("probe(x) == probe(x)", Expr::Equals(bx(p(r("x"))), bx(p(r("x")))), "eq"),
        ("i1 in [i1]", Expr::Contains(bx(Expr::Vec(vec![i(1)])), bx(i(1))), "contains"),
        ("none in [none]", Expr::Contains(bx(Expr::Vec(vec![Expr::Value(Value::None)])), bx(Expr::Value(Value::None))), "contains"),
        ("n in [n]", Expr::Contains(bx(Expr::Vec(vec![r("n")])), bx(r("n"))), "contains"),
        ("[none] contains none", Expr::Contains(bx(Expr::Vec(vec![Expr::Value(Value::None)])), bx(Expr::Value(Value::None))), "contains"),
        ("[n, x] contains n", Expr::Contains(bx(Expr::Vec(vec![r("n"), r("x")])), bx(r("n"))), "contains"),
        ("x in [x]", Expr::Contains(bx(Expr::Vec(vec![r("x")])), bx(r("x"))), "contains"),
        ("probe(x) == none", Expr::Equals(bx(p(r("x"))), bx(Expr::Value(Value::None))), "eq"),
        ("probe(x) != none", Expr::NotEquals(bx(p(r("x"))), bx(Expr::Value(Value::None))), "neq"),
        ("(i1 / i0) == none", Expr::Equals(bx(Expr::Div(bx(i(1)), bx(i(0)))), bx(Expr::Value(Value::None))), "eq"),
        ("none == probe(x)", Expr::Equals(bx(Expr::Value(Value::None)), bx(p(r("x")))), "eq"),
        ("probe(x) == i5", Expr::Equals(bx(p(r("x"))), bx(i(5))), "eq"),
        ("i5 == probe(x)", Expr::Equals(bx(i(5)), bx(p(r("x")))), "eq"),
        ("probe(i1) > probe(i2)", Expr::GreaterThan(bx(p(i(1))), bx(p(i(2)))), "gt"),
        ("probe(i1) + probe(i2) * probe(i3)", Expr::Add(bx(p(i(1))), bx(Expr::Mult(bx(p(i(2))), bx(p(i(3)))))), "add"),
        ("--true", Expr::Neg(bx(Expr::Neg(bx(Expr::Value(Value::Bool(true)))))), "neg"),
        ("duration(i18446744073709551621)", Expr::Duration(bx(i(18446744073709551621))), "duration"),
        ("datetime(i18446744073709638016)", Expr::DateTime(bx(i(18446744073709638016))), "datetime"),
        ("f2.5 * i1", Expr::Mult(bx(Expr::Value(Value::Float(2.5))), bx(i(1))), "mult"),
        ("0xFFFFFFFFFFFFFFFFFFFFFFFFFFFFFFF", i(0xFFFFFFFFFFFFFFFFFFFFFFFFFFFFFFF), "int"),
        ("[probe(i1), probe(i2)].0", Expr::Index(bx(Expr::Vec(vec![p(i(1)), p(i(2))])), Index::Vec(0)), "index"),
        ("{a: probe(i1), b: probe(i2)}.b", Expr::Index(bx(Expr::Map([("a".to_string(), p(i(1))), ("b".to_string(), p(i(2)))].into_iter().collect())), Index::Map("b".into())), "index"),
    ];
    for (text, raw, top) in &texts {
        match catch_unwind(AssertUnwindSafe(|| Expr::parse(text))) {
            Ok(Ok(parsed)) => check_built(&mut rep, &format!("Expr::parse({text:?})"), top, &parsed, raw, &facts),
            Ok(Err(e)) => { rep.cases += 1; rep.fail(&["C06"], "text.parse", text, &format!("Err({e})"), "a tree"); }
            Err(_) => { rep.cases += 1; rep.fail(&["C06"], "text.parse", text, "PANIC", "a tree"); }
        }
    }
    rep.finish();
}

fn main() {
    std::panic::set_hook(Box::new(|_| {})); // panics are caught and reported as failing cases
    let args: Vec<String> = std::env::args().skip(1).collect();
    for a in &args {
        match a.as_str() {
            "ops" => family_ops(),
            "compose" => family_compose(),
            "text" => family_text(),
            "lazy" => family_lazy(),
            "ruleset" => family_ruleset(),
            "builder" => family_builder(),
            "convert" => family_convert(),
            "ser" => family_ser(),
            "parse" => family_parse(false),
            "parse-deep" => family_parse(true),
            other => eprintln!("unknown family {other}"),
        }
    }
}
