//! Executable mirror of the ghost oracle (contracts/sem_val.rs, contracts/sem_expr.rs).
//! Written from the property statements; pinned cells are the same ones that are pinned in the spec.
//! Values are the crate's own `Value` (plain data); errors are compared by class (+ name where the
//! statement says "naming it").

use chrono::{DateTime, Datelike, TimeDelta, Timelike, Utc};
use reval::expr::{Expr, Index};
use reval::prelude::Value;
use rust_decimal::prelude::*;
use std::collections::BTreeMap;

#[derive(Clone, Debug, PartialEq)]
pub enum RErr {
    InvalidType,
    DivisionByZero,
    InvalidCast,
    OutOfBounds,
    UnknownRef(String),
    InvalidSymbol(String),
    UnknownUserFunction(String),
    UserFunction(String, String),
    Other(String),
}

pub type RRes = Result<Value, RErr>;

pub fn classify(e: &reval::Error) -> RErr {
    use reval::Error as E;
    match e {
        E::InvalidType => RErr::InvalidType,
        E::DivisionByZero => RErr::DivisionByZero,
        E::InvalidCast(_, _) => RErr::InvalidCast,
        E::ValueOutOfBounds(_, _) => RErr::OutOfBounds,
        E::UnknownRef(n) => RErr::UnknownRef(n.clone()),
        E::InvalidSymbol(n) => RErr::InvalidSymbol(n.clone()),
        E::UnknownUserFunction(n) => RErr::UnknownUserFunction(n.clone()),
        // "carrying the original error": the message, the length of the context chain and whether it still is the typed error it was
        E::UserFunctionError { function, error } => RErr::UserFunction(function.clone(), format!("{}{}{}", error.to_string(),
            if error.chain().count() > 1 { format!(" #chain{}", error.chain().count()) } else { String::new() },
            if error.downcast_ref::<reval::Error>().is_some() { " #typed" } else { "" })),
        other => RErr::Other(format!("{other:?}")),
    }
}

/// structural equality with bit-wise float comparison (NaN == NaN, 0.0 != -0.0) -- "exactly the result"
pub fn same_value(a: &Value, b: &Value) -> bool {
    match (a, b) {
        (Value::Float(x), Value::Float(y)) => x.to_bits() == y.to_bits() || (x.is_nan() && y.is_nan()),
        (Value::Decimal(x), Value::Decimal(y)) => x == y && x.scale() == y.scale(),
        (Value::Vec(x), Value::Vec(y)) => x.len() == y.len() && x.iter().zip(y).all(|(p, q)| same_value(p, q)),
        (Value::Map(x), Value::Map(y)) => {
            x.len() == y.len() && x.iter().zip(y).all(|((k1, v1), (k2, v2))| k1 == k2 && same_value(v1, v2))
        }
        _ => a == b,
    }
}

pub fn same_res(a: &RRes, b: &RRes) -> bool {
    match (a, b) {
        (Ok(x), Ok(y)) => same_value(x, y),
        (Err(x), Err(y)) => x == y,
        _ => false,
    }
}

fn oob<T>(o: Option<T>, f: impl Fn(T) -> Value) -> RRes {
    o.map(f).ok_or(RErr::OutOfBounds)
}

// ---- the operator tables ------------------------------------------------------------------------------
pub fn t_add(a: &Value, b: &Value) -> RRes {
    match (a, b) {
        (Value::Int(x), Value::Int(y)) => oob(x.checked_add(*y), Value::Int),
        (Value::Float(x), Value::Float(y)) => Ok(Value::Float(x + y)),
        (Value::Decimal(x), Value::Decimal(y)) => oob(x.checked_add(*y), Value::Decimal),
        (Value::DateTime(x), Value::Duration(y)) => oob(x.checked_add_signed(*y), Value::DateTime),
        (Value::None, _) | (_, Value::None) => Ok(Value::None),
        _ => Err(RErr::InvalidType),
    }
}
pub fn t_sub(a: &Value, b: &Value) -> RRes {
    match (a, b) {
        (Value::Int(x), Value::Int(y)) => oob(x.checked_sub(*y), Value::Int),
        (Value::Float(x), Value::Float(y)) => Ok(Value::Float(x - y)),
        (Value::Decimal(x), Value::Decimal(y)) => oob(x.checked_sub(*y), Value::Decimal),
        (Value::DateTime(x), Value::DateTime(y)) => Ok(Value::Duration(x.signed_duration_since(*y))),
        (Value::DateTime(x), Value::Duration(y)) => oob(x.checked_sub_signed(*y), Value::DateTime),
        (Value::Duration(x), Value::Duration(y)) => oob(x.checked_sub(y), Value::Duration),
        (Value::None, _) | (_, Value::None) => Ok(Value::None),
        _ => Err(RErr::InvalidType),
    }
}
pub fn t_mult(a: &Value, b: &Value) -> RRes {
    match (a, b) {
        (Value::Int(x), Value::Int(y)) => oob(x.checked_mul(*y), Value::Int),
        (Value::Float(x), Value::Float(y)) => Ok(Value::Float(x * y)),
        (Value::Decimal(x), Value::Decimal(y)) => oob(x.checked_mul(*y), Value::Decimal),
        (Value::None, _) | (_, Value::None) => Ok(Value::None),
        _ => Err(RErr::InvalidType),
    }
}
pub fn t_div(a: &Value, b: &Value) -> RRes {
    match (a, b) {
        (Value::Int(x), Value::Int(y)) => x.checked_div(*y).map(Value::Int).ok_or(RErr::DivisionByZero),
        (Value::Float(x), Value::Float(y)) => Ok(Value::Float(x / y)),
        (Value::Decimal(x), Value::Decimal(y)) => x.checked_div(*y).map(Value::Decimal).ok_or(RErr::DivisionByZero),
        (Value::None, _) | (_, Value::None) => Ok(Value::None),
        _ => Err(RErr::InvalidType),
    }
}
pub fn t_rem(a: &Value, b: &Value) -> RRes {
    match (a, b) {
        (Value::Int(x), Value::Int(y)) => x.checked_rem(*y).map(Value::Int).ok_or(RErr::DivisionByZero),
        (Value::Float(x), Value::Float(y)) => Ok(Value::Float(x % y)),
        (Value::Decimal(x), Value::Decimal(y)) => x.checked_rem(*y).map(Value::Decimal).ok_or(RErr::DivisionByZero),
        (Value::None, _) | (_, Value::None) => Ok(Value::None),
        _ => Err(RErr::InvalidType),
    }
}
pub fn t_neg(a: &Value) -> RRes {
    match a {
        Value::Int(x) => oob(x.checked_neg(), Value::Int),
        Value::Float(x) => Ok(Value::Float(-x)),
        Value::Decimal(x) => Ok(Value::Decimal(-x)),
        Value::None => Ok(Value::None),
        _ => Err(RErr::InvalidType),
    }
}
pub fn t_not(a: &Value) -> RRes {
    match a {
        Value::Bool(x) => Ok(Value::Bool(!x)),
        Value::None => Ok(Value::None),
        _ => Err(RErr::InvalidType),
    }
}

fn ord<T: PartialOrd>(x: &T, y: &T, f: fn(Option<std::cmp::Ordering>) -> bool) -> RRes {
    Ok(Value::Bool(f(x.partial_cmp(y))))
}
fn cmp_op(a: &Value, b: &Value, f: fn(Option<std::cmp::Ordering>) -> bool) -> RRes {
    match (a, b) {
        (Value::Int(x), Value::Int(y)) => ord(x, y, f),
        (Value::Float(x), Value::Float(y)) => ord(x, y, f),
        (Value::Decimal(x), Value::Decimal(y)) => ord(x, y, f),
        (Value::DateTime(x), Value::DateTime(y)) => ord(x, y, f),
        (Value::Duration(x), Value::Duration(y)) => ord(x, y, f),
        (Value::None, _) | (_, Value::None) => Ok(Value::Bool(false)),
        _ => Err(RErr::InvalidType),
    }
}
use std::cmp::Ordering::*;
pub fn t_gt(a: &Value, b: &Value) -> RRes { cmp_op(a, b, |o| o == Some(Greater)) }
pub fn t_gte(a: &Value, b: &Value) -> RRes { cmp_op(a, b, |o| o == Some(Greater) || o == Some(Equal)) }
pub fn t_lt(a: &Value, b: &Value) -> RRes { cmp_op(a, b, |o| o == Some(Less)) }
pub fn t_lte(a: &Value, b: &Value) -> RRes { cmp_op(a, b, |o| o == Some(Less) || o == Some(Equal)) }

fn bit_op(a: &Value, b: &Value, fi: fn(i128, i128) -> i128, fb: fn(bool, bool) -> bool) -> RRes {
    match (a, b) {
        (Value::Int(x), Value::Int(y)) => Ok(Value::Int(fi(*x, *y))),
        (Value::Bool(x), Value::Bool(y)) => Ok(Value::Bool(fb(*x, *y))),
        (Value::None, _) | (_, Value::None) => Ok(Value::None),
        _ => Err(RErr::InvalidType),
    }
}
pub fn t_bitand(a: &Value, b: &Value) -> RRes { bit_op(a, b, |x, y| x & y, |x, y| x && y) }
pub fn t_bitor(a: &Value, b: &Value) -> RRes { bit_op(a, b, |x, y| x | y, |x, y| x || y) }
pub fn t_bitxor(a: &Value, b: &Value) -> RRes { bit_op(a, b, |x, y| x ^ y, |x, y| x != y) }

/// `==` of the derived PartialEq (structural; IEEE == on floats; numeric == on decimals)
/// Injective rendering of a value, written out here: the oracle's cache key and the invocation log must not depend on the crate's own
/// `Debug` / `Display` impls (a `Debug` that stops telling two values apart is exactly what C11 must notice).
pub fn canon(v: &Value) -> String {
    match v {
        Value::String(s) => format!("S{}:{}", s.len(), s),
        Value::Int(i) => format!("I{i}"),
        Value::Float(f) => format!("F{:016x}", f.to_bits()),
        Value::Decimal(d) => format!("D{}e{}", d.mantissa(), d.scale()),
        Value::Bool(b) => format!("B{b}"),
        Value::DateTime(t) => format!("T{}.{}", t.timestamp(), t.timestamp_subsec_nanos()),
        Value::Duration(d) => format!("U{}", d.num_nanoseconds().map(|n| n.to_string()).unwrap_or_else(|| format!("ms{}", d.num_milliseconds()))),
        Value::Vec(l) => format!("V{}[{}]", l.len(), l.iter().map(canon).collect::<Vec<_>>().join(",")),
        Value::Map(m) => format!("M{}{{{}}}", m.len(), m.iter().map(|(k, v)| format!("{}:{}={}", k.len(), k, canon(v))).collect::<Vec<_>>().join(",")),
        Value::None => "N".to_string(),
    }
}

/// Written out (NOT the crate's own `PartialEq`, which is one of the things under test): same kind and equal payload, IEEE `==` on floats
/// (NaN != NaN, -0.0 == 0.0), numeric `==` on decimals, element-wise on lists, key- and value-wise on maps, None == None structurally.
pub fn val_eq(a: &Value, b: &Value) -> bool {
    match (a, b) {
        (Value::String(x), Value::String(y)) => x == y,
        (Value::Int(x), Value::Int(y)) => x == y,
        (Value::Float(x), Value::Float(y)) => x == y,
        (Value::Decimal(x), Value::Decimal(y)) => x == y,
        (Value::Bool(x), Value::Bool(y)) => x == y,
        (Value::DateTime(x), Value::DateTime(y)) => x == y,
        (Value::Duration(x), Value::Duration(y)) => x == y,
        (Value::Vec(x), Value::Vec(y)) => x.len() == y.len() && x.iter().zip(y).all(|(p, q)| val_eq(p, q)),
        (Value::Map(x), Value::Map(y)) => x.len() == y.len() && x.iter().zip(y).all(|((k1, v1), (k2, v2))| k1 == k2 && val_eq(v1, v2)),
        (Value::None, Value::None) => true,
        _ => false,
    }
}

pub fn t_contains(c: &Value, i: &Value) -> RRes {
    match (c, i) {
        (Value::Map(m), Value::String(k)) => Ok(Value::Bool(m.contains_key(k))),
        (Value::Vec(l), x) => Ok(Value::Bool(l.iter().any(|e| val_eq(e, x)))),
        (Value::String(h), Value::String(n)) => Ok(Value::Bool(h.contains(n.as_str()))),
        (Value::Int(f), Value::Int(g)) => Ok(Value::Bool((f & g) != 0)),
        (Value::None, _) => Ok(Value::Bool(false)),
        _ => Err(RErr::InvalidType),
    }
}

pub fn t_int(a: &Value) -> RRes {
    match a {
        Value::Int(_) => Ok(a.clone()),
        Value::Float(f) => {
            // exact: fits iff -2^127 <= trunc(f) < 2^127  (finite)
            if f.is_finite() && *f >= -170141183460469231731687303715884105728.0 && *f < 170141183460469231731687303715884105728.0 {
                Ok(Value::Int(*f as i128))
            } else {
                Err(RErr::InvalidCast)
            }
        }
        Value::Decimal(d) => d.to_i128().map(Value::Int).ok_or(RErr::InvalidCast),
        Value::String(s) => s.parse::<i128>().map(Value::Int).map_err(|_| RErr::InvalidCast),
        Value::None => Ok(Value::None),
        _ => Err(RErr::InvalidType),
    }
}
pub fn t_float(a: &Value) -> RRes {
    match a {
        Value::Int(i) => Ok(Value::Float(*i as f64)),
        Value::Float(_) => Ok(a.clone()),
        Value::Decimal(d) => d.to_f64().map(Value::Float).ok_or(RErr::InvalidCast),
        Value::String(s) => s.parse::<f64>().map(Value::Float).map_err(|_| RErr::InvalidCast),
        Value::None => Ok(Value::None),
        _ => Err(RErr::InvalidType),
    }
}
pub fn t_dec(a: &Value) -> RRes {
    match a {
        Value::Int(i) => Decimal::from_i128(*i).map(Value::Decimal).ok_or(RErr::InvalidCast),
        Value::Float(f) => Decimal::try_from(*f).map(Value::Decimal).map_err(|_| RErr::InvalidCast),
        Value::Decimal(_) => Ok(a.clone()),
        Value::String(s) => Decimal::from_str(s).map(Value::Decimal).map_err(|_| RErr::InvalidCast),
        Value::None => Ok(Value::None),
        _ => Err(RErr::InvalidType),
    }
}
fn to_i64(i: i128) -> Option<i64> { i64::try_from(i).ok() }
pub fn t_datetime(a: &Value) -> RRes {
    match a {
        Value::String(s) => s.parse::<DateTime<Utc>>().map(Value::DateTime).map_err(|_| RErr::InvalidCast),
        Value::Int(i) => to_i64(*i).and_then(|s| DateTime::from_timestamp(s, 0)).map(Value::DateTime).ok_or(RErr::InvalidCast),
        Value::DateTime(_) => Ok(a.clone()),
        Value::None => Ok(Value::None),
        _ => Err(RErr::InvalidType),
    }
}
pub fn t_duration(a: &Value) -> RRes {
    match a {
        Value::Int(i) => to_i64(*i).and_then(TimeDelta::try_seconds).map(Value::Duration).ok_or(RErr::InvalidCast),
        Value::Duration(_) => Ok(a.clone()),
        Value::None => Ok(Value::None),
        _ => Err(RErr::InvalidType),
    }
}
fn str_op(a: &Value, f: fn(&str) -> String) -> RRes {
    match a {
        Value::String(s) => Ok(Value::String(f(s))),
        Value::None => Ok(Value::None),
        _ => Err(RErr::InvalidType),
    }
}
pub fn t_uppercase(a: &Value) -> RRes { str_op(a, |s| s.to_uppercase()) }
pub fn t_lowercase(a: &Value) -> RRes { str_op(a, |s| s.to_lowercase()) }
pub fn t_trim(a: &Value) -> RRes { str_op(a, |s| s.trim().to_string()) }
fn round_op(a: &Value, ff: fn(f64) -> f64, fd: fn(&Decimal) -> Decimal) -> RRes {
    match a {
        Value::Float(f) => Ok(Value::Float(ff(*f))),
        Value::Decimal(d) => Ok(Value::Decimal(fd(d))),
        Value::None => Ok(Value::None),
        _ => Err(RErr::InvalidType),
    }
}
pub fn t_floor(a: &Value) -> RRes { round_op(a, f64::floor, Decimal::floor) }
pub fn t_round(a: &Value) -> RRes { round_op(a, f64::round, Decimal::round) }
pub fn t_fract(a: &Value) -> RRes { round_op(a, f64::fract, Decimal::fract) }
pub fn t_year(a: &Value) -> RRes {
    match a { Value::DateTime(d) => Ok(Value::Int(d.year() as i128)), Value::None => Ok(Value::None), _ => Err(RErr::InvalidType) }
}
pub fn t_month(a: &Value) -> RRes {
    match a { Value::DateTime(d) => Ok(Value::Int(d.month() as i128)), Value::None => Ok(Value::None), _ => Err(RErr::InvalidType) }
}
fn dur_ctor(i: i128, f: fn(i64) -> Option<TimeDelta>) -> RRes {
    to_i64(i).and_then(f).map(Value::Duration).ok_or(RErr::OutOfBounds)
}
pub fn t_week(a: &Value) -> RRes {
    match a {
        Value::Int(i) => dur_ctor(*i, TimeDelta::try_weeks),
        Value::Duration(d) => Ok(Value::Int(d.num_weeks() as i128)),
        Value::None => Ok(Value::None),
        _ => Err(RErr::InvalidType),
    }
}
pub fn t_day(a: &Value) -> RRes {
    match a {
        Value::Int(i) => dur_ctor(*i, TimeDelta::try_days),
        Value::DateTime(d) => Ok(Value::Int(d.day() as i128)),
        Value::Duration(d) => Ok(Value::Int(d.num_days() as i128)),
        Value::None => Ok(Value::None),
        _ => Err(RErr::InvalidType),
    }
}
pub fn t_hour(a: &Value) -> RRes {
    match a {
        Value::Int(i) => dur_ctor(*i, TimeDelta::try_hours),
        Value::DateTime(d) => Ok(Value::Int(d.hour() as i128)),
        Value::Duration(d) => Ok(Value::Int(d.num_hours() as i128)),
        Value::None => Ok(Value::None),
        _ => Err(RErr::InvalidType),
    }
}
pub fn t_minute(a: &Value) -> RRes {
    match a {
        Value::Int(i) => dur_ctor(*i, TimeDelta::try_minutes),
        Value::DateTime(d) => Ok(Value::Int(d.minute() as i128)),
        Value::Duration(d) => Ok(Value::Int(d.num_minutes() as i128)),
        Value::None => Ok(Value::None),
        _ => Err(RErr::InvalidType),
    }
}
pub fn t_second(a: &Value) -> RRes {
    match a {
        Value::Int(i) => dur_ctor(*i, TimeDelta::try_seconds),
        Value::DateTime(d) => Ok(Value::Int(d.second() as i128)),
        Value::Duration(d) => Ok(Value::Int(d.num_seconds() as i128)),
        Value::None => Ok(Value::None),
        _ => Err(RErr::InvalidType),
    }
}
pub fn t_index(v: &Value, i: &Index) -> RRes {
    match (v, i) {
        (Value::Map(m), Index::Map(k)) => Ok(m.get(k).cloned().unwrap_or(Value::None)),
        (Value::Vec(l), Index::Vec(n)) => Ok(l.get(*n).cloned().unwrap_or(Value::None)),
        (Value::None, _) => Ok(Value::None),
        _ => Err(RErr::InvalidType),
    }
}

// ---- evaluation state and the compositional denotation -------------------------------------------------
#[derive(Clone, Debug, PartialEq)]
pub struct Call {
    pub name: String,
    pub arg: String, // Debug rendering of the argument (a function of its view)
}

/// behaviour of a user function in a scenario: (argument, number of earlier invocations of THIS function) -> result
pub type Behaviour = fn(&Value, usize) -> Result<Value, String>;

#[derive(Clone)]
pub struct FnModel {
    pub name: &'static str,
    pub cacheable: bool,
    pub behaviour: Behaviour,
}

pub struct Env<'a> {
    pub facts: &'a Value,
    pub symbols: &'a BTreeMap<String, Value>,
    pub fns: &'a [FnModel],
}

#[derive(Clone, Default)]
pub struct St {
    pub cache: BTreeMap<String, Value>,
    pub log: Vec<Call>,
}

fn call_sem(env: &Env, name: &str, arg: Value, st: &mut St) -> RRes {
    let f = match env.fns.iter().find(|f| f.name == name) {
        Some(f) => f,
        None => return Err(RErr::UnknownUserFunction(name.to_string())),
    };
    let invoke = |st: &mut St| -> Result<Value, RErr> {
        let prior = st.log.iter().filter(|c| c.name == f.name).count();
        st.log.push(Call { name: f.name.to_string(), arg: canon(&arg) });
        (f.behaviour)(&arg, prior).map_err(|e| RErr::UserFunction(name.to_string(), e))
    };
    if f.cacheable {
        let key = format!("{name}-{}", canon(&arg));
        if let Some(v) = st.cache.get(&key) {
            return Ok(v.clone());
        }
        let v = invoke(st)?;
        st.cache.insert(key, v.clone());
        Ok(v)
    } else {
        invoke(st)
    }
}

fn to_bool(r: RRes) -> Result<bool, RErr> {
    match r? {
        Value::Bool(b) => Ok(b),
        _ => Err(RErr::InvalidType),
    }
}

pub fn sem(e: &Expr, env: &Env, st: &mut St) -> RRes {
    macro_rules! un {
        ($x:expr, $f:expr) => {{
            let v = sem($x, env, st)?;
            $f(&v)
        }};
    }
    macro_rules! bin {
        ($l:expr, $r:expr, $f:expr) => {{
            let a = sem($l, env, st)?;
            let b = sem($r, env, st)?;
            $f(&a, &b)
        }};
    }
    match e {
        Expr::Value(v) => Ok(v.clone()),
        Expr::Reference(name) => {
            if name == "facts" {
                Ok(env.facts.clone())
            } else {
                match env.facts {
                    Value::Map(m) => m.get(name).cloned().ok_or_else(|| RErr::UnknownRef(name.clone())),
                    _ => Err(RErr::InvalidType),
                }
            }
        }
        Expr::Symbol(name) => env.symbols.get(name).cloned().ok_or_else(|| RErr::InvalidSymbol(name.clone())),
        Expr::Index(x, idx) => {
            let v = sem(x, env, st)?;
            t_index(&v, idx)
        }
        Expr::Function(name, x) => {
            let v = sem(x, env, st)?;
            call_sem(env, name, v, st)
        }
        Expr::If(c, l, r) => {
            if to_bool(sem(c, env, st))? { sem(l, env, st) } else { sem(r, env, st) }
        }
        Expr::Map(m) => {
            let mut out = BTreeMap::new();
            for (k, x) in m {
                out.insert(k.clone(), sem(x, env, st)?);
            }
            Ok(Value::Map(out))
        }
        Expr::Vec(v) => {
            let mut out = Vec::new();
            for x in v {
                out.push(sem(x, env, st)?);
            }
            Ok(Value::Vec(out))
        }
        Expr::Not(x) => un!(x, t_not),
        Expr::Neg(x) => un!(x, t_neg),
        Expr::Some(x) => un!(x, |v: &Value| -> RRes { Ok(Value::Bool(*v != Value::None)) }),
        Expr::None(x) => un!(x, |v: &Value| -> RRes { Ok(Value::Bool(*v == Value::None)) }),
        Expr::Int(x) => un!(x, t_int),
        Expr::Float(x) => un!(x, t_float),
        Expr::Dec(x) => un!(x, t_dec),
        Expr::DateTime(x) => un!(x, t_datetime),
        Expr::Duration(x) => un!(x, t_duration),
        Expr::Mult(l, r) => bin!(l, r, t_mult),
        Expr::Div(l, r) => bin!(l, r, t_div),
        Expr::Rem(l, r) => bin!(l, r, t_rem),
        Expr::Add(l, r) => bin!(l, r, t_add),
        Expr::Sub(l, r) => bin!(l, r, t_sub),
        Expr::Equals(l, r) | Expr::NotEquals(l, r) => {
            let neg = matches!(e, Expr::NotEquals(_, _));
            let a = sem(l, env, st)?;
            let eq = if a == Value::None {
                false
            } else {
                let b = sem(r, env, st)?;
                val_eq(&a, &b)
            };
            Ok(Value::Bool(eq != neg))
        }
        Expr::GreaterThan(l, r) => bin!(l, r, t_gt),
        Expr::GreaterThanEquals(l, r) => bin!(l, r, t_gte),
        Expr::LessThan(l, r) => bin!(l, r, t_lt),
        Expr::LessThanEquals(l, r) => bin!(l, r, t_lte),
        Expr::And(l, r) => {
            if !to_bool(sem(l, env, st))? { Ok(Value::Bool(false)) } else { Ok(Value::Bool(to_bool(sem(r, env, st))?)) }
        }
        Expr::Or(l, r) => {
            if to_bool(sem(l, env, st))? { Ok(Value::Bool(true)) } else { Ok(Value::Bool(to_bool(sem(r, env, st))?)) }
        }
        Expr::BitAnd(l, r) => bin!(l, r, t_bitand),
        Expr::BitOr(l, r) => bin!(l, r, t_bitor),
        Expr::BitXor(l, r) => bin!(l, r, t_bitxor),
        Expr::Contains(c, i) => bin!(c, i, t_contains),
        Expr::UpperCase(x) => un!(x, t_uppercase),
        Expr::LowerCase(x) => un!(x, t_lowercase),
        Expr::Trim(x) => un!(x, t_trim),
        Expr::Floor(x) => un!(x, t_floor),
        Expr::Round(x) => un!(x, t_round),
        Expr::Fract(x) => un!(x, t_fract),
        Expr::Year(x) => un!(x, t_year),
        Expr::Month(x) => un!(x, t_month),
        Expr::Week(x) => un!(x, t_week),
        Expr::Day(x) => un!(x, t_day),
        Expr::Hour(x) => un!(x, t_hour),
        Expr::Minute(x) => un!(x, t_minute),
        Expr::Second(x) => un!(x, t_second),
    }
}
