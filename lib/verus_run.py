"""Run Verus on an assembled unit and classify every diagnostic against the unit's line map."""
import hashlib
import json
import os
import re
import subprocess
import sys
import time

VERIF = os.path.dirname(os.path.dirname(os.path.abspath(__file__)))
sys.path.insert(0, os.path.join(VERIF, 'extract'))
import extract  # noqa: E402

OBLIGATION_MSGS = (
    'postcondition not satisfied', 'precondition not satisfied', 'possible arithmetic underflow/overflow',
    'possible division by zero', 'invariant not satisfied', 'assertion failed', 'could not prove termination',
    'decreases not satisfied', 'possible bit shift underflow/overflow', 'loop invariant not satisfied',
    'unreachable_unchecked precondition', 'recommendation not met',
)
OBLIGATION_RE = re.compile(
    r'postcondition not satisfied|precondition not satisfied|possible arithmetic underflow/overflow|'
    r'possible division by zero|invariant not satisfied|assertion failed|could not prove termination|unable to prove post-condition of closure|'
    r'decreases not satisfied|possible bit shift|cannot show invariant holds|invariant not satisfied')
TOOL_LIMIT_RE = re.compile(r'not supported|unsupported|Resource limit|rlimit|timed out|panicked|internal error|cyclic')


def verus_cmd(rs, seed=None, rlimit=None, threads=8):
    cmd = ['verus', rs, '--no-erasure-check', '--multiple-errors', '50', '--output-json', '--time',
           '--num-threads', str(threads)]
    if rlimit:
        cmd += ['--rlimit', str(rlimit)]
    if seed is not None:
        cmd += ['--smt-option', 'smt.random_seed=%d' % seed, '--smt-option', 'sat.random_seed=%d' % seed]
    cmd += ['--', '--error-format=json']
    return cmd


def run_verus(rs, seed=None, rlimit=None, timeout=900):
    cmd = verus_cmd(rs, seed, rlimit)
    env = dict(os.environ)
    t0 = time.time()
    try:
        p = subprocess.run(cmd, cwd=os.path.dirname(rs), env=env, stdout=subprocess.PIPE, stderr=subprocess.PIPE,
                           timeout=timeout, universal_newlines=True)
        out, err, rc = p.stdout, p.stderr, p.returncode
        timed_out = False
    except subprocess.TimeoutExpired as e:
        out = e.stdout or ''
        err = e.stderr or ''
        if isinstance(out, bytes):
            out = out.decode(errors='replace')
        if isinstance(err, bytes):
            err = err.decode(errors='replace')
        rc, timed_out = -1, True
    wall = time.time() - t0
    js = None
    try:
        # stdout may contain non-JSON noise before the object
        k = out.index('{')
        js = json.loads(out[k:])
    except Exception:
        js = None
    diags = []
    for line in err.split('\n'):
        line = line.strip()
        if line.startswith('{'):
            try:
                d = json.loads(line)
                if d.get('$message_type') == 'diagnostic' or 'message' in d:
                    diags.append(d)
            except Exception:
                pass
    return {'cmd': ' '.join(cmd), 'rc': rc, 'timed_out': timed_out, 'wall_s': wall, 'json': js, 'diags': diags,
            'stderr_tail': err[-4000:]}


# methods of std traits that vstd specifies through `obeys_*_spec()` / external trait specifications (an impl without a spec is
# admitted with an unknown result instead of being rejected)
TRAIT_SPEC_METHODS = {'from', 'into', 'try_from', 'try_into', 'clone', 'cloned', 'default', 'eq', 'ne', 'partial_cmp', 'cmp', 'lt', 'le', 'gt', 'ge',
                      'add', 'sub', 'mul', 'div', 'rem', 'neg', 'not', 'bitand', 'bitor', 'bitxor', 'shl', 'shr', 'next', 'to_string',
                      'from_str', 'parse', 'index', 'into_iter'}
# (`as_ref`, `borrow`, `to_owned`, `collect`, `extend`, .. are NOT in the list: their traits have no external trait specification,
# so Verus rejects a call whose impl has no `assume_specification` -- that is already a tool limit)


def classify(meta, run, unit_file):
    """Returns dict with:
         failed: list of {fn, clause, tags, message, line, kind}    (obligation failures)
         tool:   list of messages (tool limits => UNDECIDED)
         fn_status: {key: bool} per function under contract (from the SMT breakdown)
    """
    base = os.path.basename(unit_file)
    linemap = meta['linemap']
    clause_lines = [(a, b, i) for a, b, i in linemap if i.get('kind') == 'clause']
    body_lines = [(a, b, i) for a, b, i in linemap if i.get('kind') == 'fnbody']

    def find_clause(line):
        for a, b, i in clause_lines:
            if a <= line <= b:
                return i
        return None

    def find_body(line):
        for a, b, i in body_lines:
            if a <= line <= b:
                return i
        return None

    failed = []
    tool = []
    rlimit_fns = []
    tool_scoped = []
    demote_candidates = {}
    # a loop the contract file has no invariant for cannot be verified: failures in such a function are a tool limit
    unannotated = {f['key']: (f.get('loops', 0), f.get('loops_with_invariant', 0)) for f in meta.get('functions', [])
                   if f.get('loops', 0) > f.get('loops_with_invariant', 0)}
    # a closure without a ghost annotation is opaque to Verus (nothing is known about its result): same rule
    opaque = {f['key']: (f.get('closures', 0), f.get('closures_annotated', 0)) for f in meta.get('functions', [])
              if f.get('closures', 0) > f.get('closures_annotated', 0)}
    # a function that NEWLY (relative to baseline/calls.json) calls a std trait method that vstd specifies only through `obeys_*_spec()`:
    # for an impl without a specification the call is admitted with an unknown result, so a failed obligation there is undecided
    new_trait_calls = {}
    try:
        with open(os.path.join(VERIF, 'baseline', 'calls.json')) as f:
            base_calls = json.load(f).get(meta.get('unit', ''), {})
    except Exception:
        base_calls = {}
    # a NEW call site of a function under contract (more calls of that name than on the unchanged tree) needs its own termination
    # argument (a lemma hint): "could not prove termination" in such a function is undecided, not a violation
    try:
        with open(os.path.join(VERIF, 'baseline', 'call_counts.json')) as f:
            base_counts = json.load(f).get(meta.get('unit', ''), {})
    except Exception:
        base_counts = {}
    contracted = set(f.get('name') for f in meta.get('functions', []))
    new_rec_sites = {}
    for f in meta.get('functions', []):
        if f['key'] in base_counts and 'call_counts' in f:
            more = sorted(n for n, c in f['call_counts'].items() if n in contracted and c > base_counts[f['key']].get(n, 0))
            if more:
                new_rec_sites[f['key']] = more
    # the control-flow skeleton (if / match arms / loops / `?` / early returns, in order) of a function differs from the unchanged tree:
    # the proof hints of the contract (asserts, fuel, triggers) were written for the old shape, so a failed obligation may be
    # incompleteness of the proof rather than a defect; it needs a concrete failing input to be reported
    try:
        with open(os.path.join(VERIF, 'baseline', 'skeletons.json')) as f:
            base_skel = json.load(f).get(meta.get('unit', ''), {})
    except Exception:
        base_skel = {}
    reshaped = set(f['key'] for f in meta.get('functions', []) if f['key'] in base_skel and 'skeleton' in f and f['skeleton'] != base_skel[f['key']])
    new_callees = {}
    unit_vocab = set(x for v in base_calls.values() for x in v)
    for f in meta.get('functions', []):
        if f['key'] in base_calls and 'calls' in f:
            nw = []
            for x in sorted(set(f['calls']) - set(base_calls[f['key']])):
                nm = x.split('::')[-1].lstrip('.')
                if nm not in TRAIT_SPEC_METHODS:
                    continue
                if '::' in x and not x.startswith('?::') and x in unit_vocab:
                    continue   # `Type::method` already used (and verified) elsewhere in this unit on the unchanged tree
                nw.append(x)
            if nw:
                new_trait_calls[f['key']] = nw
            # any other callee the function did not call on the unchanged tree: the proof was not written with that callee's contract in
            # mind (it may be too weak for this caller) -- same treatment as a changed control-flow shape
            other_new = sorted(set(f['calls']) - set(base_calls[f['key']]))
            if other_new and f['key'] not in new_trait_calls:
                new_callees[f['key']] = other_new
    canary_lines = set(meta.get('canary_lines', []))
    canary_failed = False
    canaries_failed = set()
    if run['timed_out']:
        tool.append('verus timed out after %.0fs' % run['wall_s'])
    for d in run['diags']:
        lvl = d.get('level')
        msg = d.get('message', '')
        if lvl not in ('error',):
            continue
        if msg.startswith('aborting due to') or msg.startswith('For more information'):
            continue
        spans = [s for s in d.get('spans', []) if s.get('file_name', '').endswith(base)]
        if OBLIGATION_RE.search(msg) and any(s['line_start'] in canary_lines for s in spans):
            canary_failed = True   # expected: `ensures false` must not be provable
            canaries_failed.update(s['line_start'] for s in spans if s['line_start'] in canary_lines)
            continue
        if OBLIGATION_RE.search(msg):
            # which clause?  prefer a span that lies on a clause line; else the enclosing function body
            hit = None
            for s in spans:
                c = find_clause(s['line_start'])
                if c is not None:
                    hit = ('clause', c, s['line_start'])
                    break
            if hit is None:
                for s in sorted(spans, key=lambda s: not s.get('is_primary')):
                    b = find_body(s['line_start'])
                    if b is not None:
                        hit = ('body', b, s['line_start'])
                        break
            if hit is None:
                # an obligation failure outside any function under contract (prelude lemma / sanity lemma)
                tool.append('obligation failed outside contracted code: %s @%s' %
                            (msg, [(s['file_name'], s['line_start']) for s in d.get('spans', [])][:2]))
                continue
            kind, info, line = hit
            if info['fn'] in unannotated:
                tool_scoped.append({'tags': info.get('tags', []), 'clause': info['clause'],
                                    'msg': 'fn %s has %d loop(s) but the contract supplies invariants for %d: obligation %s is undecided (not a violation)' %
                                           (info['fn'], unannotated[info['fn']][0], unannotated[info['fn']][1], info['clause'])})
                continue
            if re.search(r'could not prove termination|decreases not satisfied', msg) and info['fn'] in new_rec_sites:
                tool_scoped.append({'tags': info.get('tags', []), 'clause': info['clause'],
                                    'msg': 'fn %s has new call site(s) of %s, which need their own termination argument: obligation %s is undecided (not a violation)' %
                                           (info['fn'], ', '.join(new_rec_sites[info['fn']]), info['clause'])})
                continue
            if info['fn'] in new_callees and info['fn'] not in reshaped:
                tool_scoped.append({'tags': info.get('tags', []), 'clause': info['clause'], 'needs_input': True, 'fn': info['fn'],
                                    'rendered': d.get('rendered', '')[:3000], 'message': msg,
                                    'msg': 'fn %s calls %s, which it did not call on the unchanged tree (the proof was not written against that contract): the failed obligation %s is reported only if a concrete failing input confirms it' %
                                           (info['fn'], ', '.join(new_callees[info['fn']][:4]), info['clause'])})
                continue
            if info['fn'] in reshaped:
                tool_scoped.append({'tags': info.get('tags', []), 'clause': info['clause'], 'needs_input': True, 'fn': info['fn'],
                                    'rendered': d.get('rendered', '')[:3000], 'message': msg,
                                    'msg': 'fn %s has a different control-flow shape than on the unchanged tree (the proof hints were written for the old shape): the failed obligation %s is reported only if a concrete failing input confirms it' %
                                           (info['fn'], info['clause'])})
                continue
            if info['fn'] in new_trait_calls:
                tool_scoped.append({'tags': info.get('tags', []), 'clause': info['clause'],
                                    'msg': 'fn %s newly calls the std trait method(s) %s; where the impl behind such a call has no specification Verus admits the call with an unknown result: obligation %s is undecided (not a violation)' %
                                           (info['fn'], ', '.join(new_trait_calls[info['fn']]), info['clause'])})
                continue
            if info['fn'] in opaque:
                tool_scoped.append({'tags': info.get('tags', []), 'clause': info['clause'],
                                    'msg': 'fn %s contains %d closure(s) of which %d carry a ghost annotation; an un-annotated closure is opaque to the verifier: obligation %s is undecided (not a violation)' %
                                           (info['fn'], opaque[info['fn']][0], opaque[info['fn']][1], info['clause'])})
                continue
            failed.append({'fn': info['fn'], 'clause': info['clause'], 'tags': info.get('tags', []),
                           'message': msg, 'line': line, 'kind': kind,
                           'rendered': d.get('rendered', '')[:3000]})
        else:
            # a non-obligation error (unsupported construct, rustc error) located inside one function under contract:
            # that function can be demoted and the rest of the unit still verified
            where = None
            for sp in sorted(spans, key=lambda sp: not sp.get('is_primary')):
                b = find_body(sp['line_start'])
                if b is not None:
                    where = b
                    break
            if where is not None and re.search(r'Resource limit|rlimit', msg):
                # the solver ran out of budget somewhere in this function.  If the same function also has obligations the solver
                # positively failed (reported before the budget ran out), those stand and the budget note adds nothing; decided below
                rlimit_fns.append((where['fn'], msg[:500]))
                continue
            if where is not None:
                demote_candidates.setdefault(where['fn'], msg[:300])
            tool.append(msg[:500])
    # the solver ran out of budget inside a function: neither that function's other failures nor its successes mean anything
    fn_tags_all = {}
    for f in meta.get('functions', []):
        fn_tags_all[f['key']] = sorted(set(t for c in f.get('clauses', []) for t in c.get('tags', [])) | set(f.get('safety_tags', [])))
    for fn_, msg_ in rlimit_fns:
        moved = [x for x in failed if x['fn'] == fn_]
        failed = [x for x in failed if x['fn'] != fn_]
        tool_scoped.append({'tags': fn_tags_all.get(fn_, []), 'clause': fn_ + '.safety',
                            'msg': 'fn %s: %s (its %d failed obligation(s) in the same run are not trusted either)' % (fn_, msg_[:200], len(moved))})
    fn_status = {}
    js = run['json']
    if js is None:
        tool.append('no JSON result from verus (rc=%s): %s' % (run['rc'], run['stderr_tail'][-800:]))
    else:
        vr = js.get('verification-results', {})
        if vr.get('encountered-vir-error'):
            tool.append('verus encountered a VIR error')
        crate = os.path.splitext(base)[0]
        try:
            for m in js['times-ms']['smt']['smt-run-module-times']:
                for fb in m.get('function-breakdown', []):
                    fn_status[fb['function']] = {'ok': bool(fb.get('success')), 'time_us': fb.get('time-micros', 0),
                                                 'rlimit': fb.get('rlimit', 0)}
        except Exception:
            pass
        if not vr.get('success') and not failed and not tool and not tool_scoped and not canary_failed:
            tool.append('verus reported failure without a classifiable diagnostic: %s' % run['stderr_tail'][-800:])
    if canary_lines and (not canary_failed or canaries_failed != canary_lines) and js is not None and not tool:
        tool.append('CANARY VERIFIED: `ensures false` was proved with the unit\'s axioms in scope -- trusted base inconsistent')
    return {'failed': failed, 'tool': tool, 'tool_scoped': tool_scoped, 'demote_candidates': demote_candidates, 'fn_status': fn_status, 'canary_failed': canary_failed}


def _verify_once(unit, outdir, demote, seed, rlimit, timeout, cache):
    rs, meta = extract.assemble(unit, outdir, demote)
    with open(rs, 'rb') as f:
        digest = hashlib.sha256(f.read() + repr((seed, rlimit)).encode()).hexdigest()
    cdir = os.path.join(VERIF, '.cache', 'verus')
    cfile = os.path.join(cdir, '%s-%s.json' % (unit, digest[:24]))
    run = None
    if cache and os.path.exists(cfile):
        try:
            with open(cfile) as f:
                run = json.load(f)
            run['cached'] = True
        except Exception:
            run = None
    if run is None:
        run = run_verus(rs, seed, rlimit, timeout)
        run['cached'] = False
        if cache and not run['timed_out'] and run['json'] is not None:
            os.makedirs(cdir, exist_ok=True)
            with open(cfile, 'w') as f:
                json.dump(run, f)
    res = classify(meta, run, rs)
    return rs, meta, run, res


def assemble_and_verify(unit, outdir, seed=None, rlimit=None, timeout=900, cache=True):
    """Assemble and verify a unit.  If one function cannot be brought through the extractor / front end (lost hint anchor,
    unsupported construct, type error against its contract), that function is DEMOTED -- first to an `external_body` import
    (contract assumed for its callers), then to a bare signature -- and the rest of the unit is still verified.  The demoted
    function's own obligations are reported as undecided, scoped to the properties they are tagged with."""
    demote = {}
    reasons = {}
    last = None
    for attempt in range(6):
        try:
            rs, meta, run, res = _verify_once(unit, outdir, {k: v for k, v in demote.items()}, seed, rlimit, timeout, cache)
        except extract.ExtractError as e:
            k = getattr(e, 'fn_key', None)
            if k is not None and demote.get(k) != 'bare':
                demote[k] = 'bare' if demote.get(k) == 'import' else 'import'
                reasons.setdefault(k, str(e)[:300])
                continue
            raise
        last = (rs, meta, run, res)
        cands = {k: m for k, m in res.get('demote_candidates', {}).items() if demote.get(k) != 'bare'}
        if not cands or attempt == 5:
            break
        for k, m in cands.items():
            demote[k] = 'bare' if demote.get(k) == 'import' else 'import'
            reasons.setdefault(k, m)
    rs, meta, run, res = last
    if demote:
        dem = {d['key']: d for d in meta.get('demoted', [])}
        bare_names = [dem[k]['name'] for k, v in demote.items() if v == 'bare' and k in dem]
        for k, v in demote.items():
            d = dem.get(k, {'tags': [], 'clauses': []})
            res['tool_scoped'].append({'tags': d['tags'], 'clause': k,
                                       'msg': 'fn %s could not be brought through the verifier (%s); demoted to %s: its obligations %s are undecided' %
                                              (k, reasons.get(k, '?'), 'an assumed contract' if v == 'import' else 'a bare signature', d['clauses'][:6])})
        # Every function that (transitively) calls a demoted function relies on a contract that is no longer proved in this
        # run: ITS obligations are undecided too (otherwise a changed callee could hide behind its assumed contract).
        # Callers are found by name in the emitted bodies; a demoted trait impl is dispatched implicitly (`?`, `.into()`,
        # `try_into()`), so it taints the whole unit.
        src = open(rs).read().split('\n')
        bodies = {}
        for a_, b_, i_ in meta['linemap']:
            if i_.get('kind') == 'fnbody':
                bodies[i_['fn']] = '\n'.join(src[a_ - 1:b_])
        fn_tags = {f['key']: sorted(set(t for c in f['clauses'] for t in c['tags']) | set(f['safety_tags'])) for f in meta['functions']}
        taint_all = any(k.startswith('<') for k in demote)
        tainted = set()
        names = set(dem[k]['name'] for k in demote if k in dem)
        changed = True
        while changed:
            changed = False
            for fk, body in bodies.items():
                if fk in tainted:
                    continue
                if taint_all or any(re.search(r'\b%s\s*\(' % re.escape(n), body.split('{', 1)[1] if '{' in body else body) for n in names):
                    tainted.add(fk)
                    nm = fk.split('::')[-1]
                    if nm not in names:
                        names.add(nm)
                        changed = True
        for fk in sorted(tainted):
            res['tool_scoped'].append({'tags': fn_tags.get(fk, []), 'clause': fk,
                                       'msg': 'fn %s depends on demoted function(s) %s: its obligations are undecided in this run' % (fk, sorted(demote))})
        res['failed'] = [f for f in res['failed'] if f['fn'] not in tainted]
        res['tainted'] = sorted(tainted)
    res['demoted'] = demote
    return rs, meta, run, res


if __name__ == '__main__':
    unit = sys.argv[1]
    out = sys.argv[2] if len(sys.argv) > 2 else os.path.join(VERIF, 'build')
    try:
        rs, meta, run, res = assemble_and_verify(unit, out, cache='--no-cache' not in sys.argv)
    except extract.ExtractError as e:
        print('EXTRACT-ERROR', e)
        sys.exit(2)
    print('wall %.1fs cached=%s rc=%s' % (run['wall_s'], run.get('cached'), run['rc']))
    if run['json']:
        print(run['json']['verification-results'])
    byfn = {}
    for f in res['failed']:
        byfn.setdefault(f['fn'], []).append('%s (%s, line %d)' % (f['clause'], f['message'], f['line']))
    for k, v in byfn.items():
        print('FAIL', k)
        for x in v:
            print('     ', x)
    for t in res['tool']:
        print('TOOL', t[:600])
