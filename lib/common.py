"""Verdict plumbing shared by every property check (DESIGN.md 3.5-3.8)."""
import json
import os
import re
import shutil
import subprocess
import sys
import time

VERIF = os.path.dirname(os.path.dirname(os.path.abspath(__file__)))
sys.path.insert(0, os.path.join(VERIF, 'extract'))
import extract  # noqa: E402
import verus_run  # noqa: E402

REPO = os.environ.get('VERIF_REPO', '/repo')


def load_json(path, default=None):
    try:
        with open(path) as f:
            return json.load(f)
    except Exception:
        return default


def checks_config():
    return load_json(os.path.join(VERIF, 'checks.json'), {})


def known_findings():
    out = {'finding': [], 'fixed': []}
    p = os.path.join(VERIF, 'known_findings.txt')
    if os.path.exists(p):
        for ln in open(p):
            ln = ln.strip()
            if not ln or ln.startswith('#'):
                continue
            m = re.match(r'(finding|fixed):\s*property=(\S+)\s+(.*)$', ln)
            if m:
                d = {'property': m.group(2), 'text': m.group(3), 'raw': ln}
                mm = re.search(r'clause=(\S+)', m.group(3))
                if mm:
                    d['clause'] = mm.group(1)
                out[m.group(1)].append(d)
    return out


def scan_trusted(rs_path):
    """mechanical scan of the assembled file for everything that is assumed rather than proved"""
    src = open(rs_path).read()
    items = []
    forbidden = []
    lines = src.split('\n')
    for i, l in enumerate(lines):
        s = l.strip()
        if s.startswith('//'):
            continue
        if re.search(r'\b(assume|admit)\s*\(', s) and 'assume_specification' not in s:
            forbidden.append('%d: %s' % (i + 1, s[:120]))
        m = re.search(r'assume_specification(?:<[^\[]*>)?\s*\[\s*(.+?)\s*\]', s)
        if m:
            items.append('assume_specification ' + m.group(1))
        m = re.search(r'uninterp spec fn (\w+)', s)
        if m:
            items.append('uninterp ' + m.group(1))
        if 'external_type_specification' in s or 'external_trait_specification' in s:
            nxt = ' '.join(x.strip() for x in lines[i + 1:i + 4])
            mm = re.search(r'(?:struct|trait)\s+(\w+)', nxt)
            items.append('external spec ' + (mm.group(1) if mm else '?'))
        if 'verifier::external_body' in s:
            nxt = ' '.join(x.strip() for x in lines[i:i + 4])
            mm = re.search(r'(?:fn|struct)\s+(\w+)', nxt.split('external_body', 1)[1])
            items.append('external_body ' + (mm.group(1) if mm else '?'))
    seen = []
    for x in items:
        if x not in seen:
            seen.append(x)
    return seen, forbidden


def scratch_dir():
    base = os.environ.get('TMPDIR') or '/var/tmp'
    d = os.path.join(base, 'reval-verif.%d' % os.getpid())
    os.makedirs(d, exist_ok=True)
    return d


ASSUMPTIONS = [
    "Dependency contracts are assumed, not proved: rust_decimal::Decimal, chrono::{DateTime<Utc>,TimeDelta}, anyhow::Error are stand-in "
    "types whose operations are uninterpreted spec functions (contracts/standins.rs); panicking operators carry their panic condition as a precondition.",
    "std contracts beyond vstd are assumed (contracts/std_specs.rs): f64::{floor,round,fract}, i128/f64::from_str, str::{to_uppercase,to_lowercase,trim,contains,parse}, "
    "[T]::contains, i128::checked_neg, bool &/|, String keys of BTreeMap obey the Ord/Borrow model, equal String views are equal Strings.",
    "Floating point is uninterpreted: IEEE operations are total and equal vstd's uninterpreted *_spec functions; exec float<->int `as` casts have no spec in Verus.",
    "Derived impls are assumed: Clone returns an equal value; PartialEq on Value is structural with IEEE == on floats (val_eq).",
    "Async: Verus' future model (the value of f().await satisfies f's ensures); suspension, polling and cancellation are not modelled; #[async_recursion] boxing is erased.",
    "Extraction: bodies are copied verbatim from /repo/src by byte offsets on every run; only rewrites R1-R22 and ghost insertions G1/G2 (logged per application, "
    "see rewrites_applied) are applied; attributes and doc comments are dropped.",
    "Boundary functions carry ASSUMED std semantics where vstd has no model (each is listed in trusted_base): v.iter().any(f), chars.all(f), "
    "x.into_iter().map(f).collect() for Vec/BTreeMap/HashMap (element-wise, in order, first error wins; colliding produced keys: survivor not stated), "
    "BTreeMap::append, for-loops over &BTreeMap in ascending key order, Box::new(f) as Box<dyn UserFunction> keeps name()/cacheable(), "
    "serde::Serialize through ValueSerializer is a deterministic function of the input.",
    "Generic `impl IntoIterator` parameters (with_rules, with_functions, Symbols::append) are verified at one instantiation (Vec<T>, resp. BTreeMap<String, Value>): "
    "an argument iterator with side effects of its own or without end is not covered.",
    "Machine integers are exact: i128/i64 are bounded mathematical integers with overflow obligations (nothing assumed).",
    "Verifier trust: Verus 0.2026.09.13 / Z3 4.16.0 (and Kani 0.68 / CBMC 6.11 where used) and their encodings of Rust semantics.",
]


def write_evidence(prop, ev):
    os.makedirs(os.path.join(VERIF, 'evidence'), exist_ok=True)
    with open(os.path.join(VERIF, 'evidence', prop + '.json'), 'w') as f:
        json.dump(ev, f, indent=1)


def run_property(prop, tier, seed):
    t0 = time.time()
    cfg = checks_config().get(prop)
    if cfg is None:
        print('UNDECIDED property=%s not claimed (see MANIFEST.json not_applicable)' % prop)
        return 2
    sdir = scratch_dir()
    try:
        return _run_property(prop, tier, seed, cfg, sdir, t0)
    finally:
        shutil.rmtree(sdir, ignore_errors=True)


def _run_property(prop, tier, seed, cfg, sdir, t0):
    kf = known_findings()
    baseline = {} if os.environ.get('VERIF_REBASELINE') else load_json(os.path.join(VERIF, 'baseline', 'obligations.json'), {})
    units = cfg.get('units', [])
    seeds = [None] if tier == 'quick' else [None, seed * 3 + 1, seed * 3 + 2]
    rlimit = 30 if tier == 'quick' else 90
    obligations = []   # dicts: id, fn, unit, src, kind, status
    failures = []      # dicts from classify, + unit
    tool = []
    pending_confirm = []   # obligations that failed in a reshaped function: reported under their own name once a concrete input confirms them
    trusted = []
    cmds = []
    smt_ms = 0.0
    wall_verus = 0.0
    fn_count = 0
    rewrites = []
    dropped = []
    hashes = []
    unstable = []
    functions = []
    fn_times = []
    for unit in units:
        per_seed = []
        meta = None
        for sd in seeds:
            try:
                rs, meta, run, res = verus_run.assemble_and_verify(unit, sdir, seed=sd, rlimit=rlimit, timeout=cfg.get('timeout', 900))
            except extract.ExtractError as e:
                tool.append('[%s] extract: %s' % (unit, e))
                meta = None
                break
            per_seed.append((run, res))
            if sd is None:
                tb, forb = scan_trusted(rs)
                for x in tb:
                    if x not in trusted:
                        trusted.append(x)
                for x in forb:
                    tool.append('[%s] forbidden assume/admit in assembled file: %s' % (unit, x))
                cmds.append('python3 extract/extract.py %s <scratch> && ' % unit + re.sub(r'/\S*?reval-verif\.\d+/', '<scratch>/', run['cmd']))
            try:
                smt_ms += run['json']['times-ms']['smt']['smt-run'] if run['json'] else 0
            except Exception:
                pass
            wall_verus += run['wall_s']
        if meta is None:
            continue
        run0, res0 = per_seed[0]
        for t in res0['tool']:
            tool.append('[%s] %s' % (unit, t))
        for ts in res0.get('tool_scoped', []):
            if prop in ts.get('tags', []):
                tool.append('[%s] %s' % (unit, ts['msg']))
                if ts.get('needs_input'):
                    pending_confirm.append((unit, ts))
        failed_ids = {}
        for f in res0['failed']:
            failed_ids.setdefault(f['clause'], []).append(f)
        # seeds: a clause that fails under some seeds but not others is unstable => UNDECIDED
        for (run_s, res_s) in per_seed[1:]:
            for t in res_s['tool']:
                tool.append('[%s] (seeded run) %s' % (unit, t))
            ids_s = set(f['clause'] for f in res_s['failed'])
            for cid in set(failed_ids) ^ ids_s:
                unstable.append('%s:%s' % (unit, cid))
        for k, st in res0['fn_status'].items():
            fn_times.append({'function': k, 'smt_time_us': st.get('time_us', 0), 'rlimit': st.get('rlimit', 0), 'ok': st.get('ok')})
        rewrites.extend(meta['rewrites'])
        dropped.extend(meta['dropped'])
        hashes.extend(meta['hashes'])
        crate = unit
        for fn in meta['functions']:
            mine = [c for c in fn['clauses'] if prop in c['tags']]
            has_safety = prop in fn['safety_tags']
            if not mine and not has_safety:
                continue
            fn_count += 1
            functions.append('%s (%s)' % (fn['key'], fn['src']))
            # was the function actually processed by the solver?
            processed = any(k.endswith('::' + fn['name']) or ('::' + fn['name']) in k for k in res0['fn_status'])
            for c in mine:
                st = 'failed' if c['id'] in failed_ids else ('discharged' if processed else 'not-run')
                obligations.append({'id': c['id'], 'fn': fn['key'], 'unit': unit, 'src': fn['src'], 'kind': c['kind'], 'status': st})
            if has_safety:
                sid = fn['key'] + '.safety'
                st = 'failed' if sid in failed_ids else ('discharged' if processed else 'not-run')
                obligations.append({'id': sid, 'fn': fn['key'], 'unit': unit, 'src': fn['src'], 'kind': 'body-safety', 'status': st})
        for cid, fl in failed_ids.items():
            f = fl[0]
            tags = list(f.get('tags', []))
            if prop in tags:
                failures.append({'unit': unit, 'clause': cid, 'fn': f['fn'], 'messages': [x['message'] for x in fl],
                                 'rendered': '\n'.join(x['rendered'] for x in fl)[:6000]})
    # ---- Kani part (if any) ------------------------------------------------------------------------
    kani_info = None
    if cfg.get('kani'):
        import kani_run
        kani_info = kani_run.run_group(prop, cfg['kani'], tier, sdir)
        for t in kani_info['tool']:
            tool.append('[kani] ' + t)
        for o in kani_info['obligations']:
            obligations.append(o)
        for f in kani_info['failures']:
            failures.append(f)
        for x in kani_info['trusted']:
            if x not in trusted:
                trusted.append(x)
        cmds.extend(kani_info['cmds'])
    # ---- K3 (thorough only): validate assumed dependency contracts with Kani; advisory -- a failure means the trusted base is wrong
    dep_validation = []
    if tier == 'thorough' and cfg.get('kani_advisory'):
        import kani_run
        adv = kani_run.run_group(prop, cfg['kani_advisory'], tier, sdir)
        for o in adv['obligations']:
            dep_validation.append({'fact': o['id'], 'status': o['status']})
            if o['status'] == 'failed':
                tool.append('[deps] ASSUMED dependency contract %s is REFUTED by Kani on the real dependency: the trusted base is wrong' % o['id'])
        cmds.extend(adv['cmds'])
    # ---- bounded stand-ins for functions outside the verifier's reach (labelled bounded, never counted as proved) -------
    import replay_run
    bounded_info = []
    bounded_fail = []
    fams_always = list(cfg.get('bounded', []))
    if tier == 'thorough':
        for fam in cfg.get('bounded_thorough', []) + replay_run.FAMILIES.get(prop, []):
            if fam not in fams_always:
                fams_always.append(fam)
    if fams_always:
        bcases, bfails, berr = replay_run.failing_for(prop, fams_always)
        if berr:
            tool.append('[bounded] ' + berr)
        for fam in fams_always:
            nf = len([f for f in bfails if f.get('family') == fam])
            bounded_info.append({'family': fam, 'cases': bcases.get(fam, 0), 'failing': nf, 'bounded': True})
        bounded_fail = bfails
    # ---- baseline: every obligation that existed when the contracts were written must still be generated
    want = baseline.get(prop, [])
    have = set(o['id'] for o in obligations)
    lost = [w for w in want if w not in have]
    # bounded stand-ins are listed but never counted as proved
    n_obl = len([o for o in obligations if not o.get('bounded')])
    n_dis = len([o for o in obligations if o['status'] == 'discharged' and not o.get('bounded')])
    not_run = [o['id'] for o in obligations if o['status'] == 'not-run']
    wall = time.time() - t0
    bounded = [o['id'] for o in obligations if o.get('bounded')]
    ev = {
        'property_id': prop, 'tier': tier, 'seed': seed, 'level': 'proof',
        'coverage': {
            'obligations': n_obl, 'discharged': n_dis,
            'checker_cmd': ' ; '.join(cmds) if cmds else 'none',
            'trusted_base': trusted,
            'functions_under_contract': functions,
            'functions_count': fn_count,
            'back_end': 'Verus 0.2026.09.13 (Z3 4.16.0)' + (' + Kani 0.68.0 (CBMC 6.11)' if kani_info else ''),
            'solver_time_ms': smt_ms, 'verus_wall_s': round(wall_verus, 2),
            'slowest_functions': sorted(fn_times, key=lambda x: -x['smt_time_us'])[:12],
            'samples': [{'obligation': o['id'], 'function': o['fn'], 'source': o['src'], 'kind': o['kind'], 'status': o['status'],
                         **({'bounded': o['bounded']} if o.get('bounded') else {})} for o in obligations[:400]],
            'bounded_obligations': [{'obligation': o['id'], 'status': o['status'], 'bound': o['bounded']} for o in obligations if o.get('bounded')],
            'rewrites_applied': rewrites[:400], 'dropped_from_extracted_text': dropped[:100], 'source_hashes': hashes[:200],
            'seeds_run': len(seeds), 'unstable': unstable,
            'dependency_contracts_validated_by_kani': dep_validation,
            'bounded_checks': bounded_info, 'bounded_checks_bound': replay_run.BOUNDS if bounded_info else '',
            'bounded_checks_note': 'bounded stand-ins run the real crate on a finite pool against an executable mirror of the oracle; they are '
                                   'NOT counted in obligations/discharged' if bounded_info else '',
            'explanation': cfg.get('explanation', ''),
        },
        'assumptions': ASSUMPTIONS + cfg.get('assumptions', []) + ((kani_info or {}).get('assumptions', [])),
        'wall_s': round(wall, 2), 'violations': 0,
    }
    # ---- verdict ------------------------------------------------------------------------------------
    def report_concrete(cases_list, why):
        os.makedirs(os.path.join(VERIF, 'replays'), exist_ok=True)
        f = cases_list[0]
        path = os.path.join(VERIF, 'replays', '%s-bounded-%s.json' % (prop, re.sub(r'[^\w.]+', '_', f.get('hint', 'case'))))
        with open(path, 'w') as fh:
            json.dump({'property': prop, 'failed_obligation': 'bounded:%s:%s' % (f.get('family'), f.get('hint')), 'function': f.get('hint'),
                       'unit': 'bounded stand-in (%s)' % f.get('family'), 'verifier_messages': [why], 'verifier_output': why,
                       'failing_input': f['input'], 'observed': f['observed'], 'expected': f['expected'], 'family': f.get('family'),
                       'all_failing_cases': cases_list[:10], 'replay_note': 'concrete input run on the real crate (replay/), bound: ' + replay_run.BOUNDS}, fh, indent=1)
        print('VIOLATION property=%s replay=%s obligation=bounded:%s:%s (concrete failing input on the real code; %s)' % (prop, path, f.get('family'), f.get('hint'), why))

    if bounded_fail and not (tool or lost or not_run or unstable):
        # a function outside the verifier's reach (bounded stand-in) fails on a concrete input
        listed = [k for k in kf['finding'] if k['property'] == prop and any(k.get('text', '').find(f['input']) >= 0 for f in bounded_fail)]
        remaining = [f for f in bounded_fail if not any(k.get('text', '').find(f['input']) >= 0 for k in listed)]
        for k in listed:
            print('KNOWN-FINDING: property=%s %s' % (prop, k['text']))
        if remaining and not failures:
            report_concrete(remaining, 'bounded stand-in for code outside the verifier\'s reach')
            ev['violations'] = 1
            write_evidence(prop, ev)
            return 1
    if tool or lost or not_run or unstable or n_obl == 0:
        # the deductive step cannot decide: fall back to the bounded stand-in; a concrete failing input is still a violation
        und = (tool + lost + not_run + unstable)[:50]
        fcases, fmine, ferr = replay_run.failing_for(prop)
        ev['coverage']['undecided'] = und
        ev['coverage']['bounded_checks'] = [{'family': k, 'cases': v, 'failing': len([f for f in fmine if f.get('family') == k]), 'bounded': True} for k, v in fcases.items()]
        ev['coverage']['bounded_checks_bound'] = replay_run.BOUNDS
        if fmine and pending_confirm:
            # a named obligation failed (in a function whose shape changed) AND the real crate disagrees with the oracle on a concrete
            # input: report the obligation, replay the input
            unit_pc, ts = pending_confirm[0]
            os.makedirs(os.path.join(VERIF, 'replays'), exist_ok=True)
            f0 = fmine[0]
            path = os.path.join(VERIF, 'replays', '%s-%s.json' % (prop, re.sub(r'[^\w.]+', '_', ts['clause'])))
            with open(path, 'w') as fh:
                json.dump({'property': prop, 'failed_obligation': ts['clause'], 'function': ts.get('fn'), 'unit': unit_pc,
                           'verifier_messages': [ts.get('message', '')], 'verifier_output': ts.get('rendered', ''),
                           'note': ts['msg'], 'failing_input': f0['input'], 'observed': f0['observed'], 'expected': f0['expected'],
                           'family': f0.get('family'), 'all_failing_cases': fmine[:10],
                           'other_failed_obligations': [x[1]['clause'] for x in pending_confirm[1:20]],
                           'replay_note': 'concrete input run on the real crate (replay/), bound: ' + replay_run.BOUNDS}, fh, indent=1)
            print('VIOLATION property=%s replay=%s obligation=%s (failed obligation confirmed by a concrete failing input on the real code)' % (prop, path, ts['clause']))
            ev['violations'] = 1
            write_evidence(prop, ev)
            return 1
        if fmine:
            for t in und[:6]:
                print('UNDECIDED(deductive) property=%s %s' % (prop, t[:300]))
            report_concrete(fmine, 'deductive step UNDECIDED (%s); bounded stand-in' % (und[0][:160] if und else 'no obligations'))
            ev['violations'] = 1
            write_evidence(prop, ev)
            return 1
        for t in tool:
            print('UNDECIDED property=%s tool-limit: %s' % (prop, t[:400]))
        for w in lost:
            print('UNDECIDED property=%s lost obligation %s (in baseline, not generated by this run)' % (prop, w))
        for w in not_run:
            print('UNDECIDED property=%s obligation %s was not processed by the verifier' % (prop, w))
        for w in unstable:
            print('UNDECIDED(unstable) property=%s clause %s fails under some SMT seeds only' % (prop, w))
        if n_obl == 0:
            print('UNDECIDED property=%s zero obligations generated' % prop)
        ev['coverage']['undecided'] = (tool + lost + not_run + unstable)[:50]
        # failures found alongside a tool limit are still reported below only if the tool limit is unrelated;
        # to stay on the safe side (never a false alarm) an UNDECIDED run reports no VIOLATION.
        write_evidence(prop, ev)
        return 2
    if not failures:
        write_evidence(prop, ev)
        print('OK property=%s obligations=%d discharged=%d functions=%d wall=%.1fs' % (prop, n_obl, n_dis, fn_count, wall))
        return 0
    # failed obligations: known finding or violation
    import replay_run
    rc = 0
    nviol = 0
    for f in failures:
        listed = [k for k in kf['finding'] if k['property'] == prop and k.get('clause') == f['clause']]
        rp = replay_run.try_replay(prop, f, sdir)
        if listed and rp.get('reproduced_listed', False):
            print('KNOWN-FINDING: property=%s %s' % (prop, listed[0]['text']))
            continue
        os.makedirs(os.path.join(VERIF, 'replays'), exist_ok=True)
        path = os.path.join(VERIF, 'replays', '%s-%s.json' % (prop, re.sub(r'[^\w.]+', '_', f['clause'])))
        with open(path, 'w') as fh:
            json.dump({'property': prop, 'failed_obligation': f['clause'], 'function': f['fn'], 'unit': f['unit'],
                       'verifier_messages': f['messages'], 'verifier_output': f['rendered'],
                       'failing_input': rp.get('input'), 'observed': rp.get('observed'), 'expected': rp.get('expected'),
                       'replay_note': rp.get('note', '')}, fh, indent=1)
        nviol += 1
        tail = '' if rp.get('input') is not None else ' no-failing-input-found'
        print('VIOLATION property=%s replay=%s obligation=%s%s' % (prop, path, f['clause'], tail))
        rc = 1
    ev['violations'] = nviol
    write_evidence(prop, ev)
    return rc


def do_replay(prop, path):
    d = load_json(path)
    if d is None:
        print('cannot read replay file', path)
        return 2
    print('replay of %s: failed obligation %s in %s' % (prop, d.get('failed_obligation'), d.get('function')))
    if d.get('failing_input') is None:
        print('no failing input was found by the replay pool; verifier output follows')
        print(d.get('verifier_output', ''))
        return 1
    import replay_run
    return replay_run.rerun(d)
