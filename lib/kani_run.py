"""Run Kani harness groups on a scratch copy of /repo's working tree (real crate, real trait impls)."""
import json
import os
import re
import shutil
import subprocess
import time

VERIF = os.path.dirname(os.path.dirname(os.path.abspath(__file__)))
REPO = os.environ.get('VERIF_REPO', '/repo')

# group -> (harness file, source file it is appended to, {harness: (clause id, bounded?, note)})
GROUPS = {
    'deps': {
        'harness_file': 'kani/deps_harness.rs', 'append_to': 'src/lib.rs', 'filter': 'verif_kani_deps::',
        'harnesses': {
            'dep_f64_to_i128_range': ('dep.f64_to_i128_range', None), 'dep_timedelta_ctor_range': ('dep.timedelta_ctor_range', None),
'dep_timedelta_checked_ops': ('dep.timedelta_checked_ops', None),
            'dep_from_timestamp_total': ('dep.from_timestamp_total', None), 'dep_decimal_from_i128_range': ('dep.decimal_from_i128_range', None),
        },
        'advisory': True,
    },
    'ser': {
        'harness_file': 'kani/ser_harness.rs', 'append_to': 'src/value/ser.rs', 'filter': 'verif_kani::',
        'harnesses': {
            'scalar_i8': ('ser.i8', None), 'scalar_i16': ('ser.i16', None), 'scalar_i32': ('ser.i32', None),
            'scalar_i64': ('ser.i64', None), 'scalar_i128': ('ser.i128', None), 'scalar_u8': ('ser.u8', None),
            'scalar_u16': ('ser.u16', None), 'scalar_u32': ('ser.u32', None), 'scalar_u64': ('ser.u64', None),
            'scalar_u128': ('ser.u128', None), 'scalar_bool': ('ser.bool', None), 'scalar_f64': ('ser.f64', None),
            'scalar_f32': ('ser.f32', None), 'scalar_unit_and_none': ('ser.unit_none', None),
            'scalar_unit_struct': ('ser.unit_struct', None), 'scalar_some_and_newtype': ('ser.some_newtype', None),
            'shape_custom_error': ('ser.custom_error', 'one fixed shape: a Serialize impl returning custom("boom")'),
            'shape_tuple2': ('ser.tuple2', 'one fixed shape: (u8, bool) with symbolic leaves'),
        },
    },
}


def run_group(prop, groups, tier, sdir):
    out = {'tool': [], 'obligations': [], 'failures': [], 'trusted': [], 'cmds': [], 'assumptions': []}
    for g in groups:
        spec = GROUPS[g]
        _run_one(prop, g, spec, tier, sdir, out)
    out['assumptions'].append('Kani/CBMC: results are mem::forget-ed (no drop glue); panics, overflow and assertion failures inside the '
                              'real serde + reval code on the harness path are checked; unwinding assertions are on for the bounded shapes.')
    return out


def _run_one(prop, g, spec, tier, sdir, out):
    work = os.path.join(sdir, 'kani-' + g)
    if os.path.exists(work):
        shutil.rmtree(work)
    # scratch copy of the working tree (no target/, no .git)
    subprocess.run(['rsync', '-a', '--exclude', 'target', '--exclude', '.git', REPO + '/', work + '/'], check=True)
    src = os.path.join(work, spec['append_to'])
    if not os.path.exists(src):
        out['tool'].append('lost anchor: %s missing' % spec['append_to'])
        return
    with open(src, 'a') as f:
        f.write(open(os.path.join(VERIF, spec['harness_file'])).read())
    tdir = os.path.join(VERIF, '.cache', 'kani-target-' + g)
    per = 120 if tier == 'quick' else 600
    cmd = ['cargo', 'kani', '--target-dir', tdir, '-Z', 'unstable-options', '--harness-timeout', '%ds' % per,
           '--output-format', 'terse', '-j', '8', '--harness', spec['filter']]
    env = dict(os.environ)
    env['CARGO_NET_OFFLINE'] = 'true'
    t0 = time.time()
    try:
        p = subprocess.run(cmd, cwd=work, env=env, stdout=subprocess.PIPE, stderr=subprocess.STDOUT, universal_newlines=True,
                           timeout=per * 4 + 600)
        text = p.stdout
    except subprocess.TimeoutExpired as e:
        text = (e.stdout or b'').decode(errors='replace') if isinstance(e.stdout, bytes) else (e.stdout or '')
        out['tool'].append('cargo kani timed out (group %s)' % g)
    wall = time.time() - t0
    out['cmds'].append('(scratch copy of /repo + %s) %s   [%.0fs]' % (spec['harness_file'], ' '.join(cmd).replace(tdir, '<cache>/kani-target'), wall))
    # parse per-harness verdicts (terse output of parallel threads is interleaved: track "Thread N:" headers)
    verdict = {}
    timed_out = set()
    thread_h = {}
    cur_thread = None
    cur_seq = None
    for line in text.split('\n'):
        m = re.match(r'Thread (\d+): Checking harness (\S+?)\.\.\.', line)
        if m:
            thread_h[m.group(1)] = m.group(2).split('::')[-1]
            cur_thread = m.group(1)
            continue
        m = re.match(r'Thread (\d+):', line)
        if m:
            cur_thread = m.group(1)
            continue
        m = re.search(r'Checking harness (\S+?)\.\.\.', line)
        if m:
            cur_seq = m.group(1).split('::')[-1]
            cur_thread = None
            continue
        h = thread_h.get(cur_thread) if cur_thread is not None else cur_seq
        if h is None:
            continue
        if 'CBMC timed out' in line:
            timed_out.add(h)
            verdict.pop(h, None)
        m = re.search(r'VERIFICATION:- (SUCCESSFUL|FAILED)', line)
        if m and h not in timed_out:
            verdict[h] = m.group(1)
    for m in re.finditer(r'Verification failed for - (\S+)', text):
        h = m.group(1).split('::')[-1]
        if h not in timed_out:
            verdict[h] = 'FAILED'
    msum = re.search(r'Complete - (\d+) successfully verified harnesses, (\d+) failures, (\d+) total', text)
    if msum is None and not verdict:
        out['tool'].append('no Kani verdicts (group %s): %s' % (g, text[-1500:]))
        return
    failed_names = set(k for k, v in verdict.items() if v == 'FAILED') - timed_out
    for h, (cid, bounded) in spec['harnesses'].items():
        if h in timed_out:
            out['tool'].append('kani harness %s timed out after %ds (UNDECIDED)' % (h, per))
            st = 'not-run'
        elif h in failed_names:
            st = 'failed'
        elif verdict.get(h) == 'SUCCESSFUL' or (msum and int(msum.group(2)) == 0 and int(msum.group(3)) >= len(spec['harnesses'])):
            st = 'discharged'
        else:
            st = 'not-run'
        o = {'id': cid, 'fn': 'kani harness ' + h, 'unit': 'kani:' + g, 'src': spec['append_to'],
             'kind': 'kani-bounded' if bounded else 'kani-complete', 'status': st}
        if bounded:
            o['bounded'] = bounded
        out['obligations'].append(o)
        if st == 'failed':
            # pull the failed checks of this harness out of the log
            seg = text
            fl = [l.strip() for l in seg.split('\n') if 'Failed Checks' in l or l.strip().startswith('Failed Checks')]
            out['failures'].append({'unit': 'kani:' + g, 'clause': cid, 'fn': 'kani harness ' + h,
                                    'messages': ['Kani: VERIFICATION FAILED for harness %s' % h] + fl[:5],
                                    'rendered': _harness_excerpt(text, h)})
    out['trusted'].extend(['kani: serde derive output for the harness types', 'kani: CBMC 6.11 / Kani 0.68 encodings',
                           'kani: alloc / String internals as compiled (not stubbed)'])
    out['raw_tail'] = text[-3000:]
    out['raw'] = text


def _harness_excerpt(text, h):
    lines = text.split('\n')
    keep = []
    on = False
    for l in lines:
        if 'Checking harness' in l:
            on = h in l
        if on or (h in l):
            keep.append(l)
    return '\n'.join(keep)[-4000:]
