"""Replay runner front end (DESIGN.md 3.6): tries to turn a failed obligation into a concrete failing input on the
real code.  It never decides anything: no input found => the VIOLATION line ends with no-failing-input-found."""
import json
import os
import subprocess

VERIF = os.path.dirname(os.path.dirname(os.path.abspath(__file__)))


def try_replay(prop, failure, sdir):
    return {'input': None, 'note': 'replay pool not built for this clause family'}


def rerun(d):
    print(json.dumps(d.get('failing_input')))
    return 1
