"""Concrete-input runner front end (DESIGN.md 3.6).

Two uses, neither of which counts as proof:
  (a) after a contract obligation failed: look for a concrete failing input on the REAL code (replay);
  (b) bounded stand-in: for functions outside the verifier's reach, and when the deductive step is UNDECIDED.
A case is reported only when the real crate's observable result differs from the executable mirror of the oracle
(replay/src/model.rs), which agrees with the real code on the whole pool on the unchanged tree.
"""
import json
import os
import subprocess
import time

VERIF = os.path.dirname(os.path.dirname(os.path.abspath(__file__)))
TARGET = os.path.join(VERIF, '.cache', 'replay-target')
BIN = os.path.join(TARGET, 'debug', 'reval-replay')

# which pools can witness which property
FAMILIES = {
    'C01': ['ops', 'compose', 'text', 'ruleset', 'lazy'], 'C02': ['ops', 'compose', 'lazy', 'text'], 'C03': ['ops', 'compose', 'text'], 'C04': ['ops', 'compose', 'text'],
    'C05': ['lazy', 'text'], 'C09': ['ruleset'], 'C10': ['ops', 'ruleset', 'builder', 'text'], 'C11': ['ruleset', 'lazy'],
    'C15': ['builder'], 'C17': ['convert'], 'C13': ['ser'], 'C06': ['parse'],
}
BOUNDS = ('operand pool of 79 boundary values per operand position (every type, its extremes, None, empty/nested containers, sub-second instants and spans, decimals differing only in scale or sign of zero); '
          'expression depth 1 (ops) / 2 (compose, 12-value pool); lazy: 5 conditions x 9 leaves per operator (calls, errors, literals), NaN on the left of comparisons, repeated identical items, 3- and 4-operand chains, every error position in '
          '4-element lists/maps; rulesets of <= 3 rules from ~60 building blocks (each also built through one with_rules batch), cache sandwiches, fan-outs of 129 / 300 distinct cacheable calls, 2 consecutive evaluations; builder: ~100 function names (every printable ASCII non-identifier start), duplicates across calls, '
          'all 3-sequences over 4 rule names through with_rule / with_rules, 5 symbol mixes; convert: type bounds +-1, every pool value as the source of every scalar and collection extraction, lists / maps holding every pool value, a non-convertible element at each position; '
          'parse: every sequence of <= 2 (thorough: <= 3) tokens over a 56-token alphabet through Expr::parse and Rule::parse, out-of-range numerals in every numeric position (and, in every radix, required to be Err), every one-character escape, unicode escape forms, non-ASCII/control characters in 12 templates; '
          'text: every pair of operator constructors over 13 leaves / 7 operand pairs, if with equal branches and literal conditions, 27 parsed texts, each against a tree written with the raw enum variants; ser: 88 values covering every serde data-model kind at its limits, nested containers, non-string keys, failing Serialize impls')

_build_cache = {}


def build():
    """(ok, message).  Builds the replay crate against /repo's current working tree."""
    if 'r' in _build_cache:
        return _build_cache['r']
    env = dict(os.environ)
    env['CARGO_TARGET_DIR'] = TARGET
    env['CARGO_NET_OFFLINE'] = 'true'
    try:
        p = subprocess.run(['cargo', 'build', '--offline', '--quiet'], cwd=os.path.join(VERIF, 'replay'), env=env,
                           stdout=subprocess.PIPE, stderr=subprocess.STDOUT, universal_newlines=True, timeout=1200)
        ok = p.returncode == 0 and os.path.exists(BIN)
        msg = '' if ok else p.stdout[-1500:]
    except Exception as e:  # noqa
        ok, msg = False, str(e)
    _build_cache['r'] = (ok, msg)
    return ok, msg


_run_cache = {}


def run_families(fams):
    """returns (cases_by_family, failing_cases list of dict, error)"""
    ok, msg = build()
    if not ok:
        return {}, [], 'replay crate does not build against the working tree: ' + msg
    key = tuple(fams)
    if key in _run_cache:
        return _run_cache[key]
    t0 = time.time()
    try:
        p = subprocess.run([BIN] + list(fams), stdout=subprocess.PIPE, stderr=subprocess.PIPE, universal_newlines=True, timeout=600)
    except subprocess.TimeoutExpired:
        return {}, [], 'replay runner timed out'
    cases = {}
    fails = []
    for line in p.stdout.split('\n'):
        line = line.strip()
        if not line.startswith('{'):
            continue
        try:
            d = json.loads(line)
        except Exception:
            continue
        if 'summary' in d:
            cases[d['summary']] = d['cases']
        else:
            fails.append(d)
    err = None
    if p.returncode != 0:
        err = 'replay runner exited %d: %s' % (p.returncode, p.stderr[-500:])
    r = (cases, fails, err)
    _run_cache[key] = r
    return r


def failing_for(prop, fams=None):
    fams = fams or FAMILIES.get(prop, [])
    if not fams:
        return {}, [], None
    cases, fails, err = run_families(fams)
    mine = [f for f in fails if prop in f.get('tags', [])]
    return cases, mine, err


def try_replay(prop, failure, sdir):
    """failure: dict with 'clause' and 'fn'.  Returns dict(input=..., observed=..., expected=..., note=...)."""
    cases, mine, err = failing_for(prop)
    if err:
        return {'input': None, 'note': err}
    if not mine:
        return {'input': None, 'note': 'no failing input in the replay pool (%s cases over families %s)' % (sum(cases.values()), sorted(cases))}
    fn = failure.get('fn', '').split('::')[-1]
    best = [f for f in mine if f.get('hint', '').startswith(fn + '.')] or [f for f in mine if fn and fn in f.get('input', '')] or mine
    f = best[0]
    return {'input': f['input'], 'observed': f['observed'], 'expected': f['expected'], 'family': f['family'],
            'note': 'found by the replay pool (%d failing of %d cases)' % (len(mine), sum(cases.values()))}


def rerun(d):
    """re-run the families and show whether the recorded input still fails on the current working tree"""
    _build_cache.clear()
    _run_cache.clear()
    fam = d.get('family')
    if not fam:
        print(json.dumps(d.get('failing_input')))
        return 1
    cases, fails, err = run_families([fam])
    if err:
        print(err)
        return 2
    hit = [f for f in fails if f.get('input') == d.get('failing_input')]
    if hit:
        print('REPRODUCED on the current tree: input=%s observed=%s expected=%s' % (hit[0]['input'], hit[0]['observed'], hit[0]['expected']))
        return 1
    print('not reproduced on the current tree (input now behaves as expected): %s' % d.get('failing_input'))
    return 0
