#!/usr/bin/env python3
"""Mechanical extractor / assembler:  /repo/src  ->  one Verus file per unit.

A unit template (contracts/<unit>.unit.rs) is ordinary Verus text with directive lines:

    //@type   <file> <kind> <Name>            copy a struct/enum/type item verbatim (attributes and doc comments dropped)
    //@fn     <key>                            copy the real function with its contract spliced in (to be VERIFIED)
    //@import <key>                            same signature + contract, body replaced by unimplemented!() and
                                               marked external_body (proved in another unit from the same contract text)
    //@include <file>                          textual include of another file from contracts/

<key> names a function contract in one of the *.contracts files; the contract says which source
file / impl context / function name it belongs to.

Everything copied from /repo is copied by byte offsets from the current working tree.  The only
edits applied to copied text are the closed rewrite list R1..R8 and the ghost parameter insertion G1
(DESIGN.md 3.3); every application is logged with file:line.
"""
import hashlib
import json
import os
import re
import sys

sys.path.insert(0, os.path.dirname(os.path.abspath(__file__)))
import rsscan  # noqa: E402

VERIF = os.path.dirname(os.path.dirname(os.path.abspath(__file__)))
REPO = os.environ.get('VERIF_REPO', '/repo')


class ExtractError(Exception):
    """lost anchor / unsupported construct: a tool limit (exit 2), never a violation"""


# ------------------------------------------------------------------------------------------------
# contracts

class Clause:
    def __init__(self, kind, cid, tags, text, line):
        self.kind, self.cid, self.tags, self.text, self.line = kind, cid, tags, text, line


class Contract:
    def __init__(self, key):
        self.key = key
        self.src = None
        self.ctx = ''          # substring that must occur in the enclosing impl header ('' = free fn)
        self.name = None
        self.ret = None
        self.safety_tags = []
        self.clauses = []      # requires / ensures / decreases
        self.loops = {}        # n -> list of Clause(kind in invariant/decreases)
        self.hints = {}        # anchor -> text
        self.ghost_param = None
        self.ghost_calls = []  # callee names that receive the ghost argument (G1)
        self.attrs = []
        self.file = None
        self.nolog = False
        self.rename = None
        self.closures = {}
        self.btree_loops = []
        self.chars_iters = []
        self.box_dyn = []
        self.map_collect = None
        self.into_collect = None
        self.instantiate = {}
        self.str_slices = []
        self.let_types = {}
        self.rename_types = {}
        self.loop_iter = {}
        self.rename_calls = {}


def parse_contracts(path):
    out = {}
    cur = None
    last = None
    with open(path) as f:
        lines = f.read().split('\n')
    for ln, raw in enumerate(lines, 1):
        if not raw.strip() or raw.lstrip().startswith('#'):
            continue
        if not raw[0].isspace():
            m = re.match(r'fn\s+(.+?)\s*$', raw)
            if not m:
                raise ExtractError('%s:%d: expected "fn <key>"' % (path, ln))
            cur = Contract(m.group(1))
            cur.file = path
            key = cur.key
            # key forms:  name | Ctx::name | <impl header substring>::name
            mm = re.match(r'^<(.+)>::([A-Za-z_0-9]+)$', key)
            if mm:
                cur.ctx, cur.name = mm.group(1), mm.group(2)
            elif '::' in key:
                cur.ctx, cur.name = key.rsplit('::', 1)
            else:
                cur.name = key
            if key in out:
                raise ExtractError('%s:%d: duplicate contract %s' % (path, ln, key))
            out[key] = cur
            last = None
            continue
        s = raw.strip()
        indent = len(raw) - len(raw.lstrip())
        if last is not None and indent > last[1]:
            # continuation of the previous clause / hint
            obj = last[0]
            if isinstance(obj, Clause):
                obj.text += '\n        ' + s
            else:
                cur.hints[obj] += '\n' + s
            continue
        m = re.match(r'(\w+)\s*(.*)$', s)
        word, rest = m.group(1), m.group(2)
        if word == 'src':
            cur.src = rest
            last = None
        elif word == 'ret':
            cur.ret = rest
            last = None
        elif word == 'safety':
            cur.safety_tags = rest.split()
            last = None
        elif word == 'attr':
            cur.attrs.append(rest)
            last = None
        elif word == 'closure':
            mm = re.match(r'(\d+)\s*:\s*(.*)$', rest)
            cur.closures[int(mm.group(1))] = mm.group(2)
            last = None
        elif word == 'rename_type':
            cur.rename_types = dict(x.split('=') for x in rest.split())
            last = None
        elif word == 'let_type':
            v, ty = rest.split(None, 1)
            cur.let_types[v] = ty
            last = None
        elif word == 'chars_iters':
            cur.chars_iters = rest.split()
            last = None
        elif word == 'str_slices':
            cur.str_slices = rest.split()
            last = None
        elif word == 'instantiate':
            pv, pty = rest.split(None, 1)
            cur.instantiate[pv] = pty.strip()
            last = None
        elif word == 'into_collect':
            cur.into_collect = rest.strip()
            last = None
        elif word == 'map_collect':
            cur.map_collect = rest.strip()
            last = None
        elif word == 'box_dyn':
            cur.box_dyn = rest.split()
            last = None
        elif word == 'btree_loops':
            cur.btree_loops = rest.split()
            last = None
        elif word == 'rename':
            cur.rename = rest.strip()
            last = None
        elif word == 'rename_calls':
            # callee=newname pairs: call sites of a renamed free function (R9)
            cur.rename_calls = dict(x.split('=') for x in rest.split())
            last = None
        elif word == 'ghost_param':
            cur.ghost_param = rest
            last = None
        elif word == 'ghost_calls':
            cur.ghost_calls = rest.split()
            last = None
        elif word in ('requires', 'ensures', 'decreases'):
            mm = re.match(r'(?:([\w.]+)\s*)?(?:\[([^\]]*)\])?\s*:\s*(.*)$', rest)
            if not mm:
                raise ExtractError('%s:%d: bad clause' % (path, ln))
            cid = mm.group(1) or ('%s.%s%d' % (cur.key, word, len(cur.clauses)))
            c = Clause(word, cid, (mm.group(2) or '').split(), mm.group(3), ln)
            cur.clauses.append(c)
            last = (c, indent)
        elif word == 'loop':
            mi = re.match(r'(\d+)\s+iter\s+(\w+)\s*$', rest)
            if mi:
                cur.loop_iter[int(mi.group(1))] = mi.group(2)
                cur.loops.setdefault(int(mi.group(1)), [])
                last = None
                continue
            mm = re.match(r'(\d+)\s+(invariant|decreases)\s*(?:([\w.]+)\s*)?(?:\[([^\]]*)\])?\s*:\s*(.*)$', rest)
            if not mm:
                raise ExtractError('%s:%d: bad loop clause' % (path, ln))
            n = int(mm.group(1))
            cid = mm.group(3) or ('%s.loop%d.%s%d' % (cur.key, n, mm.group(2), len(cur.loops.get(n, []))))
            c = Clause(mm.group(2), cid, (mm.group(4) or '').split(), mm.group(5), ln)
            cur.loops.setdefault(n, []).append(c)
            last = (c, indent)
        elif word == 'hint':
            mm = re.match(r'([^:]+):\s*(.*)$', rest)
            anchor = mm.group(1).strip()
            cur.hints[anchor] = mm.group(2)
            last = (anchor, indent)
        else:
            raise ExtractError('%s:%d: unknown directive %s' % (path, ln, word))
    for c in out.values():
        if not c.src:
            raise ExtractError('contract %s has no src' % c.key)
    return out


def load_all_contracts():
    d = {}
    cdir = os.path.join(VERIF, 'contracts')
    for fn in sorted(os.listdir(cdir)):
        if fn.endswith('.contracts'):
            for k, v in parse_contracts(os.path.join(cdir, fn)).items():
                if k in d:
                    raise ExtractError('duplicate contract key %s' % k)
                d[k] = v
    return d


# ------------------------------------------------------------------------------------------------
# source access

_src_cache = {}


def load_src(rel):
    if rel not in _src_cache:
        p = os.path.join(REPO, rel)
        if not os.path.exists(p):
            raise ExtractError('lost anchor: source file %s missing' % rel)
        src = open(p).read()
        try:
            toks = rsscan.tokenize(src)
            items = rsscan.find_items(src, toks)
        except rsscan.ScanError as e:
            raise ExtractError('cannot scan %s: %s' % (rel, e))
        _src_cache[rel] = (src, toks, items)
    return _src_cache[rel]


def norm(s):
    return ' '.join(s.split())


def find_fn(rel, ctx, name):
    src, toks, items = load_src(rel)
    cands = [i for i in items if i.kind == 'fn' and i.name == name and
             ((ctx == '' and i.ctx == '') or (ctx != '' and ctx_match(ctx, i.ctx)))]
    if len(cands) != 1:
        raise ExtractError('lost anchor: %d definitions of fn %s%s in %s (need exactly 1)' %
                           (len(cands), (ctx + '::') if ctx else '', name, rel))
    return src, cands[0]


def ctx_match(want, header):
    """want: e.g. 'EvalContext', 'Expr', 'From<i64> for Value'.  header: 'impl<'a> EvalContext<'a>'"""
    h = norm(header)
    w = norm(want)
    if ' for ' in w:
        return h.endswith(w) or (w in h and h.split('impl', 1)[1].strip().endswith(w))
    # inherent impl of type w:  'impl Foo', "impl<'a> Foo<'a>", "impl Foo<'_>"
    m = re.match(r"^impl(?:<[^>]*>)?\s+([A-Za-z_][A-Za-z0-9_]*)(?:<[^>]*>)?$", h)
    return bool(m) and m.group(1) == w


# ------------------------------------------------------------------------------------------------
# rewrites (closed list; DESIGN.md 3.3)

def strip_docs_and_attrs(text, keep_attr=lambda a: False):
    """drop comments and #[...] attributes from a copied item"""
    toks = rsscan.tokenize(text)
    out = []
    k = 0
    while k < len(toks):
        t = toks[k]
        if t[0] == 'comment':
            k += 1
            continue
        if t[0] == 'punct' and t[1] == '#':
            j = k + 1
            while toks[j][0] in ('ws', 'comment'):
                j += 1
            if toks[j][1] == '!':
                j += 1
            if toks[j][1] == '[':
                e = rsscan.match_close(toks, j)
                a = text[t[2]:toks[e][3]]
                if keep_attr(a):
                    out.append(a)
                k = e + 1
                continue
        out.append(t[1])
        k += 1
    s = ''.join(out)
    s = re.sub(r'[ \t]+\n', '\n', s)
    s = re.sub(r'\n\s*\n+', '\n', s)
    return s


def publicize_fields(text):
    """struct fields -> pub (visibility only; the assembled file splits prelude and code into two modules)"""
    toks = rsscan.tokenize(text)
    sig = rsscan.sig(toks)
    # find the struct's field list: first '{' or '(' after the name, at depth 0 (skipping generics)
    edits = []
    start = None
    for p, k in enumerate(sig):
        if toks[k][0] == 'punct' and toks[k][1] in ('{', '('):
            start = p
            break
    if start is None:
        return text
    close = rsscan.match_close(toks, sig[start])
    p = start + 1
    expect_field = True
    while p < len(sig) and sig[p] < close:
        t = toks[sig[p]]
        if t[0] == 'punct' and t[1] in ('(', '[', '{', '<'):
            if t[1] == '<':
                # skip generic args
                depth = 0
                while p < len(sig) and sig[p] < close:
                    tt = toks[sig[p]]
                    if tt[1] == '<':
                        depth += 1
                    elif tt[1] == '>':
                        depth -= 1
                        if depth == 0:
                            break
                    p += 1
            else:
                e = rsscan.match_close(toks, sig[p])
                while sig[p] < e:
                    p += 1
        elif t[0] == 'punct' and t[1] == ',':
            expect_field = True
        elif expect_field and (t[0] == 'ident' or t[0] == 'punct' and t[1] == '&'):
            if not (t[0] == 'ident' and t[1] == 'pub'):
                edits.append(t[2])
            expect_field = False
        p += 1
    for pos in sorted(edits, reverse=True):
        text = text[:pos] + 'pub ' + text[pos:]
    return text


def apply_rewrites(body, rel, base_line, log):
    """body: text of a function body (including braces).  Returns rewritten text."""
    def note(rule, pos, what):
        log.append({'rule': rule, 'where': '%s:%d' % (rel, base_line + body.count('\n', 0, pos)), 'text': what})

    # R1: constructor / path used as a function value in .map / .map_err / .and_then ...
    def r1(m):
        note('R1', m.start(), m.group(0))
        return '.%s(|x_r1| %s(x_r1))' % (m.group(1), m.group(2))
    body = re.sub(r'\.(map|map_err|and_then|all|any)\(\s*((?:[A-Za-z_][A-Za-z0-9_]*::)+[A-Za-z_][A-Za-z0-9_]*)\s*\)', r1, body)

    # R2: closure parameter `_`
    def r2(m):
        note('R2', m.start(), m.group(0))
        return '|_ignored|'
    body = re.sub(r'\|\s*_\s*\|', r2, body)

    # R12: std's two-parameter `Result<T, E>` (the assembled file has the crate's one-parameter alias `Result<T>` in scope)
    body = qualify_std_result(body, note)

    # R6: `&EMPTY_RULES` (a lazy_static: statics behind macros are unsupported) -> boundary fn `empty_rules()`
    def r6(m):
        note('R6', m.start(), m.group(0))
        return 'empty_rules()'
    body = re.sub(r'&\s*EMPTY_RULES\b', r6, body)

    # R17: `X.iter().any(` -> `vec_iter_any(&X, `
    def r17(m):
        note('R17', m.start(), m.group(0))
        return 'vec_iter_any(&%s, ' % m.group(1)
    body = re.sub(r'((?:[A-Za-z_][A-Za-z0-9_]*\.)*[A-Za-z_][A-Za-z0-9_]*)\s*\.iter\(\)\s*\.any\(', r17, body)

    # R17b: `it.all(f)` on a `Chars` iterator (named by the contract) is handled in emit_fn (needs the variable name)

    # R10: `(ident as f64)` -> `(cast_i128_as_f64(ident))`
    def r10(m):
        note('R10', m.start(), m.group(0))
        return '(cast_i128_as_f64(%s))' % m.group(1)
    body = re.sub(r'\(\s*([a-z_][A-Za-z0-9_]*)\s+as\s+f64\s*\)', r10, body)

    # token-level rewrites R3 / R8
    toks = rsscan.tokenize(body)
    sig = rsscan.sig(toks)
    edits = []  # (start, end, replacement)
    prev_unary_ctx = {'(', ',', '=', '=>', '{', ';', '==', '!=', '<', '>', '<=', '>=', '&&', '||', '+', '*', '/', '%', '!', '|', '&', '^'}
    for p, k in enumerate(sig):
        t = toks[k]
        if t[0] == 'punct' and t[1] == '-' and p + 1 < len(sig):
            prev = toks[sig[p - 1]] if p > 0 else None
            nxt = toks[sig[p + 1]]
            unary = prev is None or (prev[0] == 'punct' and prev[1] in prev_unary_ctx) or (prev[0] == 'ident' and prev[1] in ('return', 'in'))
            if unary and nxt[0] == 'ident':
                # operand must be a plain identifier (not followed by . ( :: [ )
                after = toks[sig[p + 2]] if p + 2 < len(sig) else None
                if after is None or not (after[0] == 'punct' and after[1] in ('.', '(', '::', '[')):
                    edits.append((t[2], nxt[3], 'core::ops::Neg::neg(%s)' % nxt[1]))
                    note('R3', t[2], body[t[2]:nxt[3]])
        if t[0] == 'punct' and t[1] in ('&', '|', '^') and 0 < p < len(sig) - 1:
            prev = toks[sig[p - 1]]
            nxt = toks[sig[p + 1]]
            if prev[0] == 'ident' and nxt[0] == 'ident' and p >= 2 and p + 2 < len(sig):
                pp = toks[sig[p - 2]]
                nn = toks[sig[p + 2]]
                # only the fully parenthesised binary form `( a OP b )`; never inside patterns
                if pp[0] == 'punct' and pp[1] == '(' and nn[0] == 'punct' and nn[1] == ')' and \
                        prev[1] not in ('mut', 'ref') :
                    # exclude match-arm or-patterns: `(x | y) =>` cannot occur with plain lowercase idents bound
                    after = toks[sig[p + 3]] if p + 3 < len(sig) else None
                    if after is not None and after[0] == 'punct' and after[1] in ('=>', '|'):
                        continue
                    tr = {'&': 'BitAnd::bitand', '|': 'BitOr::bitor', '^': 'BitXor::bitxor'}[t[1]]
                    edits.append((prev[2], nxt[3], 'core::ops::%s(%s, %s)' % (tr, prev[1], nxt[1])))
                    note('R8', prev[2], body[prev[2]:nxt[3]])
    edits.sort()
    out = []
    pos = 0
    for s, e, r in edits:
        if s < pos:
            continue
        out.append(body[pos:s])
        out.append(r)
        pos = e
    out.append(body[pos:])
    return ''.join(out)


def parse_format_string(lit):
    """lit: the contents of a format string literal (between the quotes).  Returns list of pieces:
    ('lit', text) | ('display', ident) | ('debug', ident); None if it uses anything else (positional args, width, ...)"""
    pieces = []
    i = 0
    cur = ''
    while i < len(lit):
        ch = lit[i]
        if ch == '{':
            if lit.startswith('{{', i):
                cur += '{'
                i += 2
                continue
            j = lit.find('}', i)
            if j < 0:
                return None
            inner = lit[i + 1:j]
            m = re.match(r'^([A-Za-z_][A-Za-z0-9_]*)(:\?)?$', inner)
            if not m:
                return None
            if cur:
                pieces.append(('lit', cur))
                cur = ''
            pieces.append(('debug' if m.group(2) else 'display', m.group(1)))
            i = j + 1
        elif ch == '}':
            if lit.startswith('}}', i):
                cur += '}'
                i += 2
                continue
            return None
        elif ch == '\\':
            return None      # escapes inside the literal: not handled (tool limit)
        else:
            cur += ch
            i += 1
    if cur:
        pieces.append(('lit', cur))
    return pieces


def rewrite_format(body, rel, base_line, log, helpers, prefix):
    """R5: `format!("...{a}...{b:?}...")` (inline arguments only) -> call of a generated external_body function whose
    `ensures` is the piece-wise concatenation of the literal pieces and fmt_display / fmt_debug of the arguments."""
    def rr(m):
        pieces = parse_format_string(m.group(1))
        if pieces is None:
            raise ExtractError('format! at %s:%d uses a form the extractor does not handle' % (rel, base_line + body.count('\n', 0, m.start())))
        n = len(helpers) + 1
        name = 'fmt_r5_%s_%d' % (prefix, n)
        args = [p for p in pieces if p[0] != 'lit']
        gens = []
        params = []
        terms = []
        k = 0
        for kind, txt in pieces:
            if kind == 'lit':
                terms.append('seq![%s]' % ', '.join("'%s'" % (c if c not in "'\\" else '\\' + c) for c in txt))
            else:
                gens.append('A%d: core::fmt::%s' % (k, 'Display' if kind == 'display' else 'Debug'))
                params.append('a%d: &A%d' % (k, k))
                terms.append('%s(a%d)' % ('fmt_display' if kind == 'display' else 'fmt_debug', k))
                k += 1
        fmt = ''.join(txt.replace('{', '{{').replace('}', '}}') if kind == 'lit' else ('{}' if kind == 'display' else '{:?}') for kind, txt in pieces)
        helpers.append('#[verifier::external_body]\npub fn %s<%s>(%s) -> (r: String)\n    ensures r@ == %s,\n{ format!("%s"%s) }\n' % (
            name, ', '.join(gens), ', '.join(params), ' + '.join(terms) if terms else 'Seq::<char>::empty()', fmt,
            ''.join(', a%d' % i for i in range(k))))
        log.append({'rule': 'R5', 'where': '%s:%d' % (rel, base_line + body.count('\n', 0, m.start())), 'text': m.group(0)})
        return '%s(%s)' % (name, ', '.join('&' + a[1] for a in args))
    return re.sub(r'format!\(\s*"((?:[^"\\]|\\.)*)"\s*\)', rr, body)


def qualify_std_result(text, note=None):
    toks = rsscan.tokenize(text)
    sig = rsscan.sig(toks)
    edits = []
    for p, k in enumerate(sig):
        t = toks[k]
        if t[0] == 'ident' and t[1] == 'Result' and p + 1 < len(sig) and toks[sig[p + 1]][1] == '<':
            if p > 0 and toks[sig[p - 1]][1] == '::':
                continue
            depth = 0
            commas = 0
            q = p + 1
            while q < len(sig):
                tt = toks[sig[q]]
                if tt[0] == 'punct':
                    if tt[1] == '<':
                        depth += 1
                    elif tt[1] == '>':
                        depth -= 1
                        if depth == 0:
                            break
                    elif tt[1] in ('(', '['):
                        e = rsscan.match_close(toks, sig[q])
                        while sig[q] < e:
                            q += 1
                    elif tt[1] == ',' and depth == 1:
                        commas += 1
                q += 1
            if commas == 1:
                edits.append(t[2])
                if note:
                    note('R12', t[2], 'Result<_, _> -> core::result::Result<_, _>')
    for pos in sorted(edits, reverse=True):
        text = text[:pos] + 'core::result::' + text[pos:]
    return text


def rewrite_for_btree(body, vars_, rel, base_line, log):
    """R4: `for PAT in IDENT {` where IDENT is listed by the contract as a `&BTreeMap<String, _>` ->
    `for PAT in btree_entries(IDENT) {`"""
    for v in vars_:
        pat = re.compile(r'(\bfor\s+[^{;]*?\bin\s*(?:/\*@@INS\d+@@\*/)?\s*)%s(\s*(?:/\*@@INS\d+@@\*/\s*)?\{)' % re.escape(v))
        def rr(m):
            log.append({'rule': 'R4', 'where': '%s:%d' % (rel, base_line + body.count('\n', 0, m.start())), 'text': 'in %s -> in btree_entries(%s)' % (v, v)})
            return '%sbtree_entries(%s)%s' % (m.group(1), v, m.group(2))
        body = pat.sub(rr, body)
    return body


def insert_ghost_args(body, callees, arg, rel, base_line, log):
    """G1: append the ghost argument to every call of a callee in `callees` (by name)."""
    if not callees:
        return body
    toks = rsscan.tokenize(body)
    sig = rsscan.sig(toks)
    edits = []
    for p, k in enumerate(sig):
        t = toks[k]
        if t[0] == 'ident' and t[1] in callees and p + 1 < len(sig) and toks[sig[p + 1]][1] == '(':
            if p > 0 and toks[sig[p - 1]][0] == 'ident' and toks[sig[p - 1]][1] == 'fn':
                continue
            close = rsscan.match_close(toks, sig[p + 1])
            inner = body[toks[sig[p + 1]][3]:toks[close][2]]
            has_args = inner.strip() != ''
            trailing_comma = inner.rstrip().endswith(',')
            ins = ('' if (not has_args or trailing_comma) else ', ') + arg
            edits.append((toks[close][2], ins))
            log.append({'rule': 'G1', 'where': '%s:%d' % (rel, base_line + body.count('\n', 0, t[2])), 'text': t[1] + '(..)'})
    for pos, ins in sorted(edits, reverse=True):
        body = body[:pos] + ins + body[pos:]
    return body


_fnret = None


def fn_ret_table():
    global _fnret
    if _fnret is None:
        _fnret = {}
        with open(os.path.join(VERIF, 'contracts', 'closure_types.txt')) as f:
            for ln in f:
                ln = ln.split('#')[0].strip()
                if ln:
                    k, v = ln.split(None, 1)
                    _fnret[k] = v.strip()
    return _fnret


def pure_args(a):
    """arguments usable verbatim in a spec expression: identifiers, literals, unary !/-, enum constructor applications"""
    if any(x in a for x in ('{', '?', '.await', '|')):
        return False
    for m in re.finditer(r'([A-Za-z_][A-Za-z0-9_]*)?\s*\(', a):
        name = m.group(1)
        if not name or not name[0].isupper():
            return False
    if re.search(r'\.\s*[a-z_][A-Za-z0-9_]*\s*\(', a):
        return False
    return True


def rewrite_map_collect(b, boundary, key, rel, base_line, log):
    """R21: `<ident>.into_iter().map(<closure>).collect()` -> `<boundary>(<ident>, <closure>)`.  The boundary fn (std_specs.rs) carries
    the ASSUMED std semantics of map + collect (element-wise, in order; for `Result` targets the first error wins), stated through
    the closure's own postcondition, hence sound for any closure -- same reason as R17 (vstd has no usable model of these adapters)."""
    pat = re.compile(r'\b([A-Za-z_][A-Za-z0-9_]*)\s*\.\s*into_iter\s*\(\s*\)\s*\.\s*map\s*\(')
    n = 0
    while True:
        m = pat.search(b)
        if not m:
            break
        depth, k = 1, m.end()
        while k < len(b) and depth:
            if b[k] in '([{':
                depth += 1
            elif b[k] in ')]}':
                depth -= 1
            k += 1
        if depth:
            raise ExtractError('fn %s: unbalanced map( .. )' % key)
        closure = b[m.end():k - 1].strip()
        mp = re.match(r'^\|\s*\(([^()|]*)\)\s*\|(.*)$', closure, re.S)
        if mp:
            # R22: a closure whose parameter is a tuple pattern: `|(a, b)| e` -> `|p_r22| { let (a, b) = p_r22; e }`
            # (Verus supports only variables as closure parameters; the desugaring is the language's own meaning of the pattern)
            closure = '|p_r22| { let (%s) = p_r22; %s }' % (mp.group(1).strip(), mp.group(2).strip())
            log.append({'rule': 'R22', 'where': '%s:%d' % (rel, base_line + b.count('\n', 0, m.start())), 'text': '|(%s)| e -> |p_r22| { let (%s) = p_r22; e }' % (mp.group(1).strip(), mp.group(1).strip())})
        m2 = re.match(r'\s*\.\s*collect\s*(?:::\s*<[^;(){}]*>\s*)?\(\s*\)', b[k:])
        if not m2:
            raise ExtractError('fn %s: .into_iter().map(..) not followed by .collect() (R21 does not apply)' % key)
        b = b[:m.start()] + '%s(%s, %s)' % (boundary, m.group(1), closure) + b[k + m2.end():]
        log.append({'rule': 'R21', 'where': '%s:%d' % (rel, base_line + b.count('\n', 0, m.start())),
                    'text': '%s.into_iter().map(f).collect() -> %s(%s, f)' % (m.group(1), boundary, m.group(1))})
        n += 1
    if n == 0:
        raise ExtractError('lost anchor: fn %s: no .into_iter().map(..).collect() chain (R21)' % key)
    return b


def annotate_closures(body, overrides, rel, base_line, log, n0=0, counter=None):
    """G2: give closures a ghost `-> (o: T) ensures ...` annotation (Verus treats an un-annotated closure as
    opaque).  Only closures in argument position whose body is a single constructor application or a single
    call of a function listed in closure_types.txt are annotated automatically; `overrides` (from the contract,
    keyed by closure ordinal) take precedence.  The executable tokens of the closure are unchanged."""
    toks = rsscan.tokenize(body)
    sig = rsscan.sig(toks)
    edits = []
    n = n0
    p = 0
    while p < len(sig):
        t = toks[sig[p]]
        prev = toks[sig[p - 1]] if p > 0 else None
        is_start = t[0] == 'punct' and t[1] in ('|', '||') and prev is not None and prev[0] == 'punct' and prev[1] in ('(', ',')
        if not is_start:
            p += 1
            continue
        n += 1
        if t[1] == '||':
            params = ''
            q = p + 1
        else:
            q = p + 1
            while q < len(sig) and not (toks[sig[q]][0] == 'punct' and toks[sig[q]][1] == '|'):
                q += 1
            params = body[t[3]:toks[sig[q]][2]].strip()
            q += 1
        if q >= len(sig):
            break
        if toks[sig[q]][1] == '->':
            p = q
            continue  # already annotated in the source
        # closure body: a block, or an expression up to ',' / ')' at depth 0
        bstart = toks[sig[q]][2]
        if toks[sig[q]][1] == '{':
            e = rsscan.match_close(toks, sig[q])
            bend = toks[e][3]
            inner = body[toks[sig[q]][3]:toks[e][2]].strip()
            nxt = q
            while sig[nxt] <= e:
                nxt += 1
        else:
            r = q
            while r < len(sig):
                tt = toks[sig[r]]
                if tt[0] == 'punct' and tt[1] in ('(', '[', '{'):
                    e = rsscan.match_close(toks, sig[r])
                    while sig[r] < e:
                        r += 1
                elif tt[0] == 'punct' and tt[1] in (')', ',', ']', '}', ';'):
                    break
                r += 1
            bend = toks[sig[r - 1]][3]
            inner = body[bstart:bend].strip()
            nxt = r
        ann = None
        n_outer = n
        inner_ann = inner
        if '|' in inner:
            # closures nested in this closure's body are numbered after it, in source order
            cnt = [n]
            inner_ann = annotate_closures(inner, overrides, rel, base_line + body.count('\n', 0, bstart), log, n0=n, counter=cnt)
            n = cnt[0]
            if inner_ann != inner and n_outer not in overrides:
                raise ExtractError('closure %d contains annotated closures but has no annotation itself' % n_outer)
        if n_outer in overrides:
            ann = overrides[n_outer]
            # `$1`, `$2`, .. in an annotation stand for the closure's own parameters (robust against a renamed parameter)
            pnames = []
            for part in params.split(','):
                mm = re.match(r'^\s*(?:mut\s+)?([A-Za-z_][A-Za-z0-9_]*)\s*(?::.*)?$', part.strip(), re.S)
                pnames.append(mm.group(1) if mm else None)
            def _pn(m, pnames=pnames):
                k = int(m.group(1)) - 1
                if k >= len(pnames) or pnames[k] is None:
                    raise ExtractError('closure %d: annotation refers to parameter $%d, which is not a plain variable' % (n_outer, k + 1))
                return pnames[k]
            ann = re.sub(r'\$(\d+)', _pn, ann)
        else:
            m = re.match(r'^((?:[A-Za-z_][A-Za-z0-9_]*::)+)([A-Za-z_][A-Za-z0-9_]*)\s*\((.*)\)$', inner, re.S)
            if m and pure_args(m.group(3)):
                path = m.group(1) + m.group(2)
                args = m.group(3).strip()
                if m.group(2)[0].isupper() and path not in fn_ret_table():
                    ty = m.group(1)[:-2]
                    ann = '-> (o_c%d: %s) ensures o_c%d == %s' % (n_outer, ty, n_outer, inner)
                elif path in fn_ret_table():
                    tup = '(%s,)' % args if args else '()'
                    ann = '-> (o_c%d: %s) ensures call_ensures(%s, %s, o_c%d)' % (n_outer, fn_ret_table()[path], path, tup, n_outer)
        if ann is None and n_outer not in overrides:
            m = re.match(r'^((?:[A-Za-z_][A-Za-z0-9_]*::)+)([A-Z][A-Za-z0-9_]*)$', inner)
            if m:
                ann = '-> (o_c%d: %s) ensures o_c%d == %s' % (n_outer, m.group(1)[:-2], n_outer, inner)
        if ann is not None:
            edits.append((bstart, bend, '%s { %s }' % (ann, inner_ann)))
            log.append({'rule': 'G2', 'where': '%s:%d' % (rel, base_line + body.count('\n', 0, t[2])), 'text': 'closure %d: %s' % (n_outer, ann)})
        p = nxt
    for s_, e_, r_ in sorted(edits, reverse=True):
        body = body[:s_] + r_ + body[e_:]
    if counter is not None:
        counter[0] = n
    return body


def count_closures(body):
    """(closures in argument position, those carrying a ghost `-> (o: T) ensures ..` annotation) in the emitted body.  A closure without
    annotation is opaque to Verus: nothing is known about its result, so a failed obligation in that function is undecided."""
    toks = rsscan.tokenize(body)
    sig = rsscan.sig(toks)
    total = ann = 0
    p = 0
    while p < len(sig):
        t = toks[sig[p]]
        prev = toks[sig[p - 1]] if p > 0 else None
        if t[0] == 'punct' and t[1] in ('|', '||') and prev is not None and prev[0] == 'punct' and prev[1] in ('(', ','):
            total += 1
            q = p + 1
            if t[1] == '|':
                while q < len(sig) and not (toks[sig[q]][0] == 'punct' and toks[sig[q]][1] == '|'):
                    q += 1
                q += 1
            if q < len(sig) and toks[sig[q]][1] == '->':
                ann += 1
            p = q
            continue
        p += 1
    return total, ann


def rename_calls(body, mapping, rel, base_line, log):
    """R9: rename call sites `name(` of a renamed free function (never after `.`, `::` or `fn`)"""
    toks = rsscan.tokenize(body)
    sig = rsscan.sig(toks)
    edits = []
    for p, k in enumerate(sig):
        t = toks[k]
        if t[0] == 'ident' and t[1] in mapping and p + 1 < len(sig) and toks[sig[p + 1]][1] == '(':
            prev = toks[sig[p - 1]] if p > 0 else None
            if prev is not None and ((prev[0] == 'punct' and prev[1] in ('.', '::')) or (prev[0] == 'ident' and prev[1] == 'fn')):
                continue
            edits.append((t[2], t[3], mapping[t[1]]))
            log.append({'rule': 'R9', 'where': '%s:%d' % (rel, base_line + body.count('\n', 0, t[2])), 'text': '%s( -> %s(' % (t[1], mapping[t[1]])})
    for s_, e_, r_ in sorted(edits, reverse=True):
        body = body[:s_] + r_ + body[e_:]
    return body


def rename_idents(text, mapping):
    toks = rsscan.tokenize(text)
    return ''.join((mapping[t[1]] if (t[0] == 'ident' and t[1] in mapping) else t[1]) for t in toks)


def find_loops(body):
    """byte offsets (in body) of the opening brace of each for/while/loop body, in source order"""
    toks = rsscan.tokenize(body)
    sig = rsscan.sig(toks)
    res = []
    for p, k in enumerate(sig):
        t = toks[k]
        if t[0] == 'ident' and t[1] in ('for', 'while', 'loop'):
            # find next '{' at depth 0
            q = p + 1
            in_pos = None
            while q < len(sig):
                tt = toks[sig[q]]
                if tt[0] == 'punct' and tt[1] in ('(', '['):
                    j = rsscan.match_close(toks, sig[q])
                    while sig[q] < j:
                        q += 1
                elif tt[0] == 'ident' and tt[1] == 'in' and t[1] == 'for' and in_pos is None:
                    in_pos = tt[3]
                elif tt[0] == 'punct' and tt[1] == '{':
                    close = rsscan.match_close(toks, sig[q])
                    res.append((tt[2], toks[close][2], in_pos))
                    break
                q += 1
    return res


# ------------------------------------------------------------------------------------------------
# grammar actions (src/reval.lalrpop)

def parse_lalrpop(rel):
    """Very small reader for the subset of lalrpop syntax used by reval.lalrpop.  Returns
    (nonterminal types, list of alternatives dict(nt, k, symbols [(name|None, sym_text)], action, fallible, line))."""
    p = os.path.join(REPO, rel)
    if not os.path.exists(p):
        raise ExtractError('lost anchor: %s missing' % rel)
    src = open(p).read()
    # strip // comments (outside strings)
    toks = rsscan.tokenize(src)
    text = ''.join((' ' * len(t[1]) if t[0] == 'comment' else t[1]) for t in toks)
    # skip the `match { ... } else { ... }` block and `extern { ... }`
    def skip_block(text, kw):
        m = re.search(r'\b%s\s*\{' % kw, text)
        if not m:
            return text
        tk = rsscan.tokenize(text)
        # find token index of the '{' at m.end()-1
        for i, t in enumerate(tk):
            if t[2] == m.end() - 1:
                e = rsscan.match_close(tk, i)
                end = tk[e][3]
                # an `else { ... }` may follow a match block
                m2 = re.match(r'\s*else\s*\{', text[end:])
                if m2:
                    target = end + m2.end() - 1
                    for j, t2 in enumerate(tk):
                        if t2[2] == target:
                            end = tk[rsscan.match_close(tk, j)][3]
                            break
                return text[:m.start()] + ' ' * (end - m.start()) + text[end:]
        return text
    text = skip_block(text, 'extern')
    text = skip_block(text, 'match')
    tk = rsscan.tokenize(text)
    sig = rsscan.sig(tk)
    types = {}
    alts = []
    i = 0
    # items:  [pub] Name : Type = Body ;     Body = Alt | { Alt , Alt , ... }
    while i < len(sig):
        t = tk[sig[i]]
        if t[0] == 'ident' and t[1] in ('use', 'grammar'):
            while tk[sig[i]][1] != ';':
                i += 1
            i += 1
            continue
        if t[0] == 'ident' and t[1] == 'pub':
            i += 1
            continue
        if t[0] == 'ident' and i + 1 < len(sig) and tk[sig[i + 1]][1] == ':':
            name = t[1]
            # type: up to '=' at depth 0
            j = i + 2
            depth = 0
            while True:
                tt = tk[sig[j]]
                if tt[1] in ('(', '[', '<'):
                    depth += 1
                elif tt[1] in (')', ']', '>'):
                    depth -= 1
                elif tt[1] == '=' and depth == 0:
                    break
                j += 1
            ty = text[tk[sig[i + 2]][2]:tk[sig[j]][2]].strip()
            types[name] = ty
            j += 1
            # body
            if tk[sig[j]][1] == '{':
                close = rsscan.match_close(tk, sig[j])
                lo, hi = tk[sig[j]][3], tk[close][2]
                body_end = close
                braces = True
            else:
                # up to ';' at depth 0
                q = j
                while True:
                    tt = tk[sig[q]]
                    if tt[1] in ('(', '[', '{'):
                        e = rsscan.match_close(tk, sig[q])
                        while sig[q] < e:
                            q += 1
                    elif tt[1] == ';':
                        break
                    q += 1
                lo, hi = tk[sig[j]][2], tk[sig[q]][2]
                body_end = sig[q]
                braces = False
            body = text[lo:hi]
            # split alternatives on ',' at depth 0 (only inside a braces body)
            parts = []
            if braces:
                btk = rsscan.tokenize(body)
                bs = rsscan.sig(btk)
                start = 0
                q = 0
                while q < len(bs):
                    tt = btk[bs[q]]
                    if tt[1] in ('(', '[', '{'):
                        e = rsscan.match_close(btk, bs[q])
                        while bs[q] < e:
                            q += 1
                    elif tt[1] == '<':
                        # generic-ish angle group of a symbol binding: skip to matching '>' (no nesting with other brackets needed)
                        d = 0
                        while q < len(bs):
                            x = btk[bs[q]][1]
                            if x == '<':
                                d += 1
                            elif x == '>':
                                d -= 1
                                if d == 0:
                                    break
                            elif x == '=>':
                                break
                            q += 1
                    elif tt[1] == ',':
                        parts.append((body[start:tt[2]], lo + start))
                        start = tt[3]
                    q += 1
                if body[start:].strip():
                    parts.append((body[start:], lo + start))
            else:
                parts.append((body, lo))
            for k, (alt, off) in enumerate(parts, 1):
                m = re.search(r'=>(\??)', alt)
                if not m:
                    continue  # pass-through alternative: no hand-written code
                syms_text = alt[:m.start()]
                action = alt[m.end():].strip()
                fallible = m.group(1) == '?'
                syms = []
                # named bindings <name:Sym...> ; anonymous <Sym>
                for mm in re.finditer(r'<\s*(?:([a-z_][A-Za-z0-9_]*)\s*:\s*)?((?:\([^()]*\)|[A-Za-z_][A-Za-z0-9_]*)\s*[*?+]?)\s*>', syms_text):
                    syms.append((mm.group(1), mm.group(2).strip()))
                if not syms:
                    # no selected symbols: `<>` (if used) stands for every symbol of the alternative
                    for w in syms_text.split():
                        syms.append((None, w))
                alts.append({'nt': name, 'k': k, 'symbols': syms, 'action': action, 'fallible': fallible,
                             'line': src.count('\n', 0, off + (len(alt) - len(alt.lstrip()))) + 1})
            i = sig.index(body_end) + 1 if body_end in sig else j + 1
            # skip a trailing ';'
            while i < len(sig) and tk[sig[i]][1] == ';':
                i += 1
            continue
        i += 1
    return types, alts


def lalrpop_terminals(rel):
    """terminal NAME -> ('lit'|'regex', text) from the grammar's `match { .. } else { .. }` block"""
    src = open(os.path.join(REPO, rel)).read()
    out = {}
    for m in re.finditer(r'(r#"(?P<raw2>.*?)"#|r"(?P<raw>(?:[^"\\]|\\.)*)"|"(?P<lit>(?:[^"\\]|\\.)*)")\s*=>\s*(?P<name>[A-Z][A-Z0-9_]*)\s*,', src):
        if m.group('lit') is not None:
            out[m.group('name')] = ('lit', m.group('lit'))
        else:
            out[m.group('name')] = ('regex', m.group('raw') if m.group('raw') is not None else m.group('raw2'))
    return out


def regex_shape(rx):
    """(literal ASCII prefix, literal ASCII suffix, minimal length in chars) of every string matched by the regex `rx`
    (subset: literals, escapes, `.`, classes, groups with alternation, `? * +`).  Used to state what the generated lexer hands to an action."""
    pos = [0]

    def parse_alt():
        alts = [parse_seq()]
        while pos[0] < len(rx) and rx[pos[0]] == '|':
            pos[0] += 1
            alts.append(parse_seq())
        return alts

    def parse_seq():
        atoms = []
        while pos[0] < len(rx) and rx[pos[0]] not in '|)':
            c = rx[pos[0]]
            if c == '(':
                pos[0] += 1
                if rx.startswith('?:', pos[0]):
                    pos[0] += 2
                sub = parse_alt()
                assert rx[pos[0]] == ')'
                pos[0] += 1
                atom = ('group', sub)
            elif c == '[':
                j = pos[0] + 1
                if rx[j] == '^':
                    j += 1
                if rx[j] == ']':
                    j += 1
                while rx[j] != ']':
                    j += 2 if rx[j] == '\\' else 1
                pos[0] = j + 1
                atom = ('class', None)
            elif c == '\\':
                e = rx[pos[0] + 1]
                pos[0] += 2
                atom = ('lit', e) if e in '.\\"\'/[](){}|?*+^$-' else ('class', None)
            elif c == '.':
                pos[0] += 1
                atom = ('class', None)
            else:
                pos[0] += 1
                atom = ('lit', c)
            q = None
            if pos[0] < len(rx) and rx[pos[0]] == '{':
                raise ExtractError('regex_shape: counted repetition `{m,n}` in %r is outside the supported regex subset' % rx)
            if atom[0] == 'lit' and atom[1] in '^$':
                raise ExtractError('regex_shape: anchor in %r is outside the supported regex subset' % rx)
            if pos[0] < len(rx) and rx[pos[0]] in '?*+':
                q = rx[pos[0]]
                pos[0] += 1
            atoms.append((atom, q))
        return atoms

    def minlen_seq(atoms):
        n = 0
        for (kind, val), q in atoms:
            one = min(minlen_seq(a) for a in val) if kind == 'group' else 1
            n += 0 if q in ('?', '*') else one
        return n

    alts = parse_alt()
    if pos[0] != len(rx):
        raise ExtractError('regex_shape: cannot read %r' % rx)
    minlen = min(minlen_seq(a) for a in alts)
    pre = suf = ''
    if len(alts) == 1:
        atoms = alts[0]
        for (kind, val), q in atoms:
            if kind == 'lit' and q is None and ord(val) < 128:
                pre += val
            else:
                break
        if len(pre) < len(atoms):
            for (kind, val), q in reversed(atoms):
                if kind == 'lit' and q is None and ord(val) < 128:
                    suf = val + suf
                else:
                    break
    return pre, suf, minlen


def lalrpop_sym_type(sym, types):
    """Rust type of the value a grammar symbol produces"""
    sym = sym.strip()
    m = re.match(r'^\(\s*<\s*([A-Za-z_][A-Za-z0-9_]*)\s*>\s*[A-Z_]*\s*\)\s*\*$', sym)
    if m:
        return 'Vec<%s>' % lalrpop_sym_type(m.group(1), types)
    if sym.endswith('?'):
        return 'Option<%s>' % lalrpop_sym_type(sym[:-1], types)
    if sym.endswith('*'):
        return 'Vec<%s>' % lalrpop_sym_type(sym[:-1], types)
    if sym in types:
        return types[sym]
    if re.match(r'^[A-Z][A-Z0-9_]*$', sym):
        return "&'static str"      # terminal: the matched slice of the input
    raise ExtractError('grammar symbol %r: unknown type' % sym)


# ------------------------------------------------------------------------------------------------
# assembly

class Assembler:
    def __init__(self, unit, demote=None):
        self.unit = unit
        self.demote = dict(demote or {})      # fn key -> 'import' (contract kept, body dropped) | 'bare' (signature only)
        self.demoted = []
        self.contracts = load_all_contracts()
        self.lines = []
        self.linemap = []      # (first_line, last_line, info)
        self.functions = []    # info per verified function
        self.rewrites = []
        self.hashes = []
        self.dropped = []
        self.lifetime_types = set()

    def emit(self, text, info=None):
        first = len(self.lines) + 1
        ls = text.split('\n')
        self.lines.extend(ls)
        if info is not None:
            self.linemap.append((first, len(self.lines), info))
        return first

    def emit_type(self, rel, kind, name, new_name=None):
        src, toks, items = load_src(rel)
        c = [i for i in items if i.kind == kind and i.name == name and i.ctx == '']
        if len(c) != 1:
            raise ExtractError('lost anchor: %d definitions of %s %s in %s' % (len(c), kind, name, rel))
        it = c[0]
        text = src[it.start:it.end]
        dropped = [a for a in it.attrs]
        self.dropped.append({'item': '%s %s' % (kind, name), 'where': '%s:%d' % (rel, rsscan.line_of(src, it.start)),
                             'dropped_attrs': dropped})
        body = strip_docs_and_attrs(text)
        body = re.sub(r'pub\s*\(\s*(crate|super)\s*\)', 'pub', body)     # visibility only: one module in the assembled file
        if kind == 'struct':
            body = publicize_fields(body)
        if new_name:
            # R9 (types): alpha-rename an item whose name clashes with another crate item in the single-module assembled file
            body = re.sub(r'\b(struct|enum|type)\s+%s\b' % re.escape(name), lambda m: '%s %s' % (m.group(1), new_name), body, count=1)
            self.rewrites.append({'rule': 'R9', 'where': '%s:%d' % (rel, rsscan.line_of(src, it.start)), 'text': '%s %s -> %s' % (kind, name, new_name)})
        if kind in ('const', 'static'):
            # R14: the elided lifetime of a reference in a const/static item is 'static (Rust's own rule); verus! needs it written
            body, n14 = re.subn(r"&\s*(?!')(?=[A-Za-z\[])", "&'static ", body.split('=', 1)[0])[0] + '=' + body.split('=', 1)[1], 0
            if not body.startswith('pub'):
                body = 'pub ' + body
        if re.match(r'^(pub\s+)?struct\s+%s\s*<\s*\'' % re.escape(name), body):
            self.lifetime_types.add(name)
        self.hashes.append({'item': '%s %s' % (kind, name), 'file': rel,
                            'src_sha256': hashlib.sha256(text.encode()).hexdigest()})
        self.emit(body, {'kind': 'type', 'name': name, 'file': rel})

    def emit_fn(self, key, imported, bare=False):
        if key not in self.contracts:
            raise ExtractError('no contract for %s' % key)
        c = self.contracts[key]
        src, it = find_fn(c.src, c.ctx, c.name)
        if it.body_open is None:
            raise ExtractError('fn %s has no body' % key)
        head = src[it.fn_kw:it.body_open]        # 'fn name(...) -> T '  (from the `fn` keyword)
        prefix = src[it.start:it.fn_kw]           # attrs, visibility, async
        body = src[it.body_open:it.body_close + 1]
        base_line = rsscan.line_of(src, it.body_open)
        fn_line = rsscan.line_of(src, it.fn_kw)
        # prefix: drop attributes and doc comments, keep visibility / async / const / unsafe
        pfx = strip_docs_and_attrs(prefix).strip()
        pfx = re.sub(r'pub\s*\(\s*(crate|super)\s*\)', 'pub', pfx)
        attrs_dropped = list(it.attrs)
        # head: name the return value
        head_clean = strip_docs_and_attrs(head).rstrip()
        head_clean = qualify_std_result(head_clean)
        if c.rename_types:
            head_clean = rename_idents(head_clean, c.rename_types)
        if c.ret:
            m = re.search(r'->\s*(.+?)\s*(where\b.*)?$', head_clean, re.S)
            if not m:
                raise ExtractError('fn %s: ret named but no return type' % key)
            rt = m.group(1)
            head_clean = head_clean[:m.start()] + '-> (%s: %s)' % (c.ret, rt) + ((' ' + m.group(2)) if m.group(2) else '')
        for lt in self.lifetime_types:
            # R11: elided lifetime of a struct with a lifetime parameter must be written in an async fn signature
            # (the real code gets this from #[async_recursion], which is dropped)
            head_clean, nsub = re.subn(r'\b%s\b(?!\s*<)' % re.escape(lt), lt + "<'_>", head_clean)
            if nsub and 'Self' not in head_clean.split('->')[-1]:
                self.rewrites.append({'rule': 'R11', 'where': '%s:%d' % (c.src, fn_line), 'text': "%s -> %s<'_>" % (lt, lt)})
        for (an, atext, arel) in getattr(self, 'aliases', []):
            # R19: spelled-out alias -> alias name (whitespace-insensitive textual match of the alias's right-hand side)
            pat = r'\s*'.join(re.escape(ch) for ch in atext)
            head_clean, nsub = re.subn(pat, an, head_clean)
            if nsub:
                self.rewrites.append({'rule': 'R19', 'where': '%s:%d' % (c.src, fn_line), 'text': '%s -> %s (alias declared in %s)' % (atext, an, arel)})
        if re.search(r'[(,]\s*_\s*:', head_clean):
            # R2b: a wildcard parameter `_: T` becomes a named, unused parameter `_pN: T` (the verus! macro wants identifiers)
            cnt2 = [0]
            def _nm(m):
                cnt2[0] += 1
                return '%s_p%d:' % (m.group(1), cnt2[0])
            head_clean = re.sub(r'([(,]\s*)_\s*:', _nm, head_clean)
            self.rewrites.append({'rule': 'R2b', 'where': '%s:%d' % (c.src, fn_line), 'text': '%d wildcard parameter(s) `_: T` -> `_pN: T`' % cnt2[0]})
        for pv, pty in c.instantiate.items():
            # R18 (explicit form): the generic parameter `<pv>: impl IntoIterator<..>` is instantiated at the type named by the contract
            # (the type its in-crate caller passes)
            m = re.search(r'\b%s\s*:\s*impl\s+IntoIterator\s*<' % re.escape(pv), head_clean)
            if not m:
                raise ExtractError('lost anchor: fn %s: parameter %s: impl IntoIterator<..> not found' % (key, pv))
            depth, k = 1, m.end()
            while k < len(head_clean) and depth:
                ch = head_clean[k]
                if ch == '<':
                    depth += 1
                elif ch == '>' and head_clean[k - 1] != '-':
                    depth -= 1
                k += 1
            old_t = head_clean[m.start():k]
            head_clean = head_clean[:m.start()] + '%s: %s' % (pv, pty) + head_clean[k:]
            self.rewrites.append({'rule': 'R18', 'where': '%s:%d' % (c.src, fn_line), 'text': '%s -> %s: %s' % (re.sub(r'\s+', ' ', old_t), pv, pty)})
        # R18: a parameter `impl IntoIterator<Item = T>` is instantiated at `Vec<T>` (Verus cannot establish the iterator-protocol
        # invariants of a `for` loop over an abstract iterator type; over `Vec<T>` it can).  The loop body is verified for every
        # finite sequence of items; what is dropped is an argument iterator with side effects of its own or without end.
        while True:
            m = re.search(r'impl\s+IntoIterator\s*<\s*Item\s*=\s*', head_clean)
            if not m:
                break
            depth, k = 1, m.end()
            while k < len(head_clean) and depth:
                ch = head_clean[k]
                if ch == '<':
                    depth += 1
                elif ch == '>' and head_clean[k - 1] != '-':
                    depth -= 1
                k += 1
            if depth:
                raise ExtractError('fn %s: unbalanced impl IntoIterator<..>' % key)
            item_t = head_clean[m.end():k - 1].strip()
            head_clean = head_clean[:m.start()] + 'Vec<%s>' % item_t + head_clean[k:]
            self.rewrites.append({'rule': 'R18', 'where': '%s:%d' % (c.src, fn_line), 'text': 'impl IntoIterator<Item = %s> -> Vec<%s>' % (item_t, item_t)})
        self_mut = False
        if re.search(r'\(\s*mut\s+self\b', head_clean):
            # R16: Verus does not support a `mut self` receiver: bind it to a mutable local instead
            head_clean = re.sub(r'\(\s*mut\s+self\b', '(self', head_clean, count=1)
            self_mut = True
            self.rewrites.append({'rule': 'R16', 'where': '%s:%d' % (c.src, fn_line), 'text': 'mut self -> self; let mut self_r16 = self; (self renamed in the body)'})
        if c.rename:
            # R9: alpha-rename the item (Verus rejects a fn whose name equals one of its parameters)
            head_clean, nsub = re.subn(r'^fn\s+%s\b' % re.escape(c.name), 'fn ' + c.rename, head_clean)
            if nsub != 1:
                raise ExtractError('fn %s: cannot rename' % key)
            self.rewrites.append({'rule': 'R9', 'where': '%s:%d' % (c.src, fn_line), 'text': 'fn %s -> fn %s' % (c.name, c.rename)})
        if c.ghost_param:
            # insert as last parameter: find the parameter list closing paren
            toks = rsscan.tokenize(head_clean)
            sig = rsscan.sig(toks)
            po = next(k for k in sig if toks[k][1] == '(')
            pc = rsscan.match_close(toks, po)
            inner = head_clean[toks[po][3]:toks[pc][2]]
            sep = '' if (inner.strip() == '' or inner.rstrip().endswith(',')) else ', '
            head_clean = head_clean[:toks[pc][2]] + sep + c.ghost_param + head_clean[toks[pc][2]:]
        out_attrs = list(c.attrs)
        if imported:
            out_attrs.append('#[verifier::external_body]')
        b = None
        log = []
        helpers = []
        self_mut_body = bool(re.search(r'\(\s*mut\s+self\b', head))
        if not imported:
            # body: rewrites, ghost args, loop clauses, hints
            b = body
            # loop clause + hint insertion work on offsets, so do them before text-changing rewrites,
            # from the back to the front.
            loops = find_loops(b)
            inserts = []  # (offset, text)
            for n, cls in c.loops.items():
                if n < 1 or n > len(loops):
                    raise ExtractError('lost anchor: fn %s has %d loops, contract names loop %d' % (key, len(loops), n))
                lo, lc, in_pos = loops[n - 1]
                if n in c.loop_iter:
                    if in_pos is None:
                        raise ExtractError('fn %s: loop %d is not a for loop' % (key, n))
                    inserts.append((in_pos, ' %s:' % c.loop_iter[n]))
                txt = []
                for kind in ('invariant', 'decreases'):
                    cc = [x for x in cls if x.kind == kind]
                    if cc:
                        txt.append('\n    %s' % kind)
                        for x in cc:
                            txt.append('\n        /*@%s@*/ %s,' % (x.cid, x.text))
                inserts.append((lo, ''.join(txt) + '\n    '))
            for anchor, text in c.hints.items():
                if anchor.startswith('__'):
                    continue
                m = re.match(r'loop (\d+) (start|end)$', anchor)
                if anchor == 'first':
                    inserts.append((1, '\n' + text + '\n'))
                elif anchor == 'last':
                    # before the final expression is not generally identifiable; 'last' = just before closing brace
                    inserts.append((len(b) - 1, '\n' + text + '\n'))
                elif m:
                    n = int(m.group(1))
                    if n < 1 or n > len(loops):
                        raise ExtractError('lost anchor: fn %s loop %d for hint' % (key, n))
                    lo, lc, _ip = loops[n - 1]
                    if m.group(2) == 'end':
                        # R13: a loop body has type (); terminate its last expression statement so a ghost block can follow
                        tail = b[lo + 1:lc].rstrip()
                        semi = '' if (tail.endswith(';') or tail.endswith('}') or tail == '') else ';'
                        if semi:
                            log.append({'rule': 'R13', 'where': '%s:%d' % (c.src, base_line + b.count('\n', 0, lc)), 'text': "';' appended to the last statement of loop %d" % n})
                        inserts.append((lc, semi + '\n' + text + '\n'))
                    else:
                        inserts.append((lo + 1, '\n' + text + '\n'))
                elif anchor.startswith('before '):
                    needle = anchor[len('before '):]
                    cnt = b.count(needle)
                    if cnt != 1:
                        raise ExtractError('lost anchor: fn %s hint anchor %r occurs %d times' % (key, needle, cnt))
                    inserts.append((b.index(needle), text + '\n'))
                elif anchor.startswith('after '):
                    needle = anchor[len('after '):]
                    cnt = b.count(needle)
                    if cnt != 1:
                        raise ExtractError('lost anchor: fn %s hint anchor %r occurs %d times' % (key, needle, cnt))
                    inserts.append((b.index(needle) + len(needle), '\n' + text + '\n'))
                else:
                    raise ExtractError('fn %s: unknown hint anchor %r' % (key, anchor))
            # Apply rewrites on segments between inserts so that offsets stay valid: simplest is to mark
            # insert points with unique placeholders first.
            marks = {}
            for idx, (off, text) in enumerate(sorted(inserts, key=lambda x: -x[0])):
                ph = '/*@@INS%d@@*/' % idx
                marks[ph] = text
                b = b[:off] + ph + b[off:]
            b = rewrite_format(b, c.src, base_line, log, helpers, re.sub(r'\W+', '_', key))
            b = apply_rewrites(b, c.src, base_line, log)
            for sv in c.str_slices:
                # R23: byte-range slicing of a `&str` named by the contract: `&v[a..]`, `&v[a..b]`, `&v[..]` -> boundary fns
                # `str_slice_from(v, a)`, `str_slice(v, a, b)`, `str_full(v)` (std_specs.rs) whose ASSUMED contracts carry std's
                # char-boundary precondition in a form Verus can discharge (an ASCII prefix / suffix)
                def _r23(m):
                    a_, dots, b_ = m.group(1).strip(), m.group(2), m.group(3).strip()
                    if not a_ and not b_:
                        return 'str_full(%s)' % sv
                    if not b_:
                        return 'str_slice_from(%s, %s)' % (sv, a_)
                    return 'str_slice(%s, %s, %s)' % (sv, a_ or '0', b_)
                b = re.sub(r'\b%s\s*\.\s*len\s*\(\s*\)' % re.escape(sv), 'str_len(%s)' % sv, b)
                b, n23 = re.subn(r'&\s*%s\s*\[([^\[\]]*?)(\.\.)([^\[\]]*?)\]' % re.escape(sv), _r23, b)
                if n23:
                    log.append({'rule': 'R23', 'where': '%s:%d' % (c.src, base_line), 'text': '%d slice(s) of &str %s -> str_slice*/str_full' % (n23, sv)})
            if c.map_collect:
                b = rewrite_map_collect(b, c.map_collect, key, c.src, base_line, log)
            if c.into_collect:
                # R21 (variant without `map`): `<ident>.into_iter().collect()` -> `<boundary>(<ident>)`
                b, n21 = re.subn(r'\b([A-Za-z_][A-Za-z0-9_]*)\s*\.\s*into_iter\s*\(\s*\)\s*\.\s*collect\s*\(\s*\)', lambda m: '%s(%s)' % (c.into_collect, m.group(1)), b)
                if n21 != 1:
                    raise ExtractError('lost anchor: fn %s: %d `.into_iter().collect()` chains (R21)' % (key, n21))
                log.append({'rule': 'R21', 'where': '%s:%d' % (c.src, base_line), 'text': 'x.into_iter().collect() -> %s(x)' % c.into_collect})
            b = annotate_closures(b, c.closures, c.src, base_line, log)
            if c.rename_types:
                b = rename_idents(b, c.rename_types)
                log.append({'rule': 'R9', 'where': '%s:%d' % (c.src, base_line), 'text': 'type names %s' % c.rename_types})
            for lv, lty in c.let_types.items():
                # R15: type ascription on a `let` whose type verus! cannot infer (rustc re-checks the ascribed type)
                b, n15 = re.subn(r'\blet\s+(mut\s+)?%s\s*=' % re.escape(lv), lambda m: 'let %s%s: %s =' % (m.group(1) or '', lv, lty), b)
                if n15 == 0:
                    # the source already ascribes a type, or the local was renamed: nothing to add (if the type then cannot be
                    # inferred, rustc says so and the function is a tool limit)
                    continue
                if n15 != 1:
                    raise ExtractError('lost anchor: fn %s: let %s occurs %d times' % (key, lv, n15))
                log.append({'rule': 'R15', 'where': '%s:%d' % (c.src, base_line), 'text': 'let %s: %s' % (lv, lty)})
            for civ in c.chars_iters:
                # R17b: `<chars>.all(f)` -> `chars_all(&mut <chars>, f)` (boundary fn; same reason as R17)
                b, n17 = re.subn(r'\b%s\s*\.all\(' % re.escape(civ), 'chars_all(&mut %s, ' % civ, b)
                if n17:
                    log.append({'rule': 'R17b', 'where': '%s:%d' % (c.src, base_line), 'text': '%s.all( -> chars_all(&mut %s, ' % (civ, civ)})
            for bv in c.box_dyn:
                # R20: `Box::new(<f>)` with `<f>: impl UserFunction + ..` coerced to the trait object alias `BoxedFunction`: the unsizing
                # coercion is made an explicit call of the boundary fn `box_user_function` (BoxedFunction is a stand-in type here)
                b, n20 = re.subn(r'\bBox\s*::\s*new\s*\(\s*%s\s*\)' % re.escape(bv), 'box_user_function(%s)' % bv, b)
                if n20:
                    log.append({'rule': 'R20', 'where': '%s:%d' % (c.src, base_line), 'text': 'Box::new(%s) -> box_user_function(%s)' % (bv, bv)})
            if c.btree_loops:
                b = rewrite_for_btree(b, c.btree_loops, c.src, base_line, log)
            if c.rename_calls:
                b = rename_calls(b, c.rename_calls, c.src, base_line, log)
            if c.ghost_calls:
                garg = c.hints.get('__ghost_arg__', 'Tracked(log)')
                b = insert_ghost_args(b, set(c.ghost_calls), garg, c.src, base_line, log)
            for ph, text in marks.items():
                b = b.replace(ph, text)

        if b is not None and self_mut_body:
            toks_b = rsscan.tokenize(b)
            out_b = []
            for t in toks_b:
                # `self_param` (contract text only) names the receiver as passed in
                out_b.append('self_r16' if (t[0] == 'ident' and t[1] == 'self') else ('self' if (t[0] == 'ident' and t[1] == 'self_param') else t[1]))
            b = ''.join(out_b)
            b = '{\n    let mut self_r16 = self;' + b[1:]
        for h in helpers:
            self.emit(h)
        # header (methods are wrapped in their real impl header); inside an //@impl_open .. //@impl_close group the header, the
        # associated types and the closing brace are emitted once by the group
        grouped = bool(it.ctx) and getattr(self, 'group_ctx', None) is not None and norm(self.group_ctx) == norm(it.ctx)
        if it.ctx and not grouped:
            for pre in c.hints.get('__before_impl__', '').split('\n'):
                if pre.strip():
                    self.emit(pre)
            self.emit(it.ctx + ' {')
            # associated type items of a trait impl (`type Error = Error;`) are copied with the method
            src_all, toks_all, items_all = load_src(c.src)
            for other in items_all:
                if other.kind == 'type' and other.ctx == it.ctx and it.ctx and other.start > 0:
                    # same impl block: lies between the impl's braces that also contain this fn
                    encl = [x for x in items_all if x.kind == 'impl' and x.name == it.ctx and x.start <= it.start and it.end <= x.end]
                    if encl and encl[0].start <= other.start and other.end <= encl[0].end:
                        self.emit('    ' + strip_docs_and_attrs(src_all[other.start:other.end]).strip())
            for ai in c.hints.get('__impl_items__', '').split('\n'):
                if ai.strip():
                    self.emit('    ' + ai)
        first_line = self.emit('\n'.join(out_attrs + ['%s %s' % (pfx, head_clean) if pfx else head_clean]))
        # clauses
        for kind in ('requires', 'ensures', 'decreases'):
            cl = [x for x in c.clauses if x.kind == kind]
            if not cl or bare:
                continue
            if imported and kind == 'decreases':
                continue   # an external_body function has no body to terminate (and rustc would see the ghost expression)
            self.emit('    %s' % kind)
            for x in cl:
                self.emit('        %s,' % x.text,
                          {'kind': 'clause', 'fn': key, 'clause': x.cid, 'tags': x.tags, 'ckind': kind,
                           'contract': '%s:%d' % (os.path.relpath(c.file, VERIF), x.line)})
        if imported:
            self.emit('{ unimplemented!() }' + ('\n}' if (it.ctx and not grouped) else '') + '\n')
            return
        body_first = self.emit(b + ('\n}' if (it.ctx and not grouped) else '') + '\n', None)
        body_last = len(self.lines)
        # register loop clause lines
        for ln in range(body_first, body_last + 1):
            m = re.search(r'/\*@([\w.]+)@\*/', self.lines[ln - 1])
            if m:
                cid = m.group(1)
                tags = []
                for cls in c.loops.values():
                    for x in cls:
                        if x.cid == cid:
                            tags = x.tags
                self.linemap.append((ln, ln, {'kind': 'clause', 'fn': key, 'clause': cid, 'tags': tags, 'ckind': 'loop'}))
        self.linemap.append((first_line, body_last, {'kind': 'fnbody', 'fn': key, 'clause': key + '.safety',
                                                      'tags': c.safety_tags, 'src': '%s:%d' % (c.src, fn_line)}))
        self.rewrites.extend(log)
        self.hashes.append({'item': 'fn ' + key, 'file': c.src, 'line': fn_line,
                            'src_sha256': hashlib.sha256(src[it.start:it.end].encode()).hexdigest(),
                            'body_sha256': hashlib.sha256(body.encode()).hexdigest()})
        if attrs_dropped:
            self.dropped.append({'item': 'fn ' + key, 'where': '%s:%d' % (c.src, fn_line), 'dropped_attrs': attrs_dropped})
        n_loops = len(find_loops(body))
        n_annotated = len([n for n, cls in c.loops.items() if any(x.kind == 'invariant' for x in cls)])
        n_clos, n_clos_ann = count_closures(b)
        btoks = rsscan.tokenize(body)
        bsig = rsscan.sig(btoks)
        cn = set()
        for k in range(len(bsig) - 1):
            if btoks[bsig[k]][0] == 'ident' and btoks[bsig[k + 1]][1] == '(':
                nm = btoks[bsig[k]][1]
                pv = btoks[bsig[k - 1]][1] if k > 0 else ''
                if pv == '.':
                    cn.add('.' + nm)
                elif pv == '::' and k > 1 and btoks[bsig[k - 2]][0] == 'ident':
                    cn.add(btoks[bsig[k - 2]][1] + '::' + nm)
                elif pv == '::':
                    cn.add('?::' + nm)
                else:
                    cn.add(nm)
        call_names = sorted(cn)
        # control-flow skeleton of the source body: the contract's proof hints were written for this shape
        skel = []
        for k in range(len(bsig)):
            tk_ = btoks[bsig[k]]
            if (tk_[0] == 'ident' and tk_[1] in ('if', 'else', 'match', 'while', 'for', 'loop', 'return', 'break', 'continue', 'let')) or \
               (tk_[0] == 'punct' and tk_[1] in ('=>', '?', '&&', '||')):
                skel.append(tk_[1])
        skeleton = ' '.join(skel)
        call_counts = {}
        for k in range(len(bsig) - 1):
            if btoks[bsig[k]][0] == 'ident' and btoks[bsig[k + 1]][1] == '(':
                call_counts[btoks[bsig[k]][1]] = call_counts.get(btoks[bsig[k]][1], 0) + 1
        self.functions.append({'key': key, 'name': c.name, 'ctx': c.ctx, 'src': '%s:%d' % (c.src, fn_line),
                               'loops': n_loops, 'loops_with_invariant': n_annotated,
                               'closures': n_clos, 'closures_annotated': n_clos_ann, 'calls': call_names, 'call_counts': call_counts, 'skeleton': skeleton,
                               'clauses': [{'id': x.cid, 'tags': x.tags, 'kind': x.kind} for x in c.clauses] +
                                          [{'id': x.cid, 'tags': x.tags, 'kind': 'loop-' + x.kind} for cls in c.loops.values() for x in cls],
                               'safety_tags': c.safety_tags})

    def emit_actions(self, spec):
        """//@actions <file.lalrpop> <tag> [skip=<substr>,<substr>...]: one fn per hand-written grammar action, body = the action text"""
        parts = spec.split()
        rel, tag = parts[0], parts[1]
        skips = []
        for x in parts[2:]:
            if x.startswith('skip='):
                skips = [y for y in x[5:].split('|') if y]
        types, alts = parse_lalrpop(rel)
        terms = lalrpop_terminals(rel)
        n = 0
        for a in alts:
            key = 'action %s_%d' % (a['nt'], a['k'])
            if any(sk in a['action'] for sk in skips):
                self.dropped.append({'item': key, 'where': '%s:%d' % (rel, a['line']), 'dropped_attrs': ['not extracted (iterator adapters): ' + a['action'][:80]]})
                continue
            params = []
            names = []
            shapes = []
            for idx, (nm, sym) in enumerate(a['symbols']):
                ty = lalrpop_sym_type(sym, types)
                pn = nm or ('p%d' % idx)
                if nm is None and re.match(r'^[A-Z][A-Z0-9_]*$', sym) and '<>' not in a['action']:
                    continue   # unselected terminal (punctuation / keyword): not passed to the action
                params.append('%s: %s' % (pn, ty))
                names.append(pn)
                if ty == "&'static str" and sym in terms and terms[sym][0] == 'regex':
                    # ASSUMED (generated lexer): a terminal's text matches the terminal's regex; what the actions and the token helpers
                    # rely on is derived mechanically from the regex: literal ASCII prefix / suffix and minimal length
                    pre, suf, mn = regex_shape(terms[sym][1])
                    sq = lambda t: ('seq![%s]' % ', '.join("'%s'" % ('\\' + ch if ch in "'\\" else ch) for ch in t)) if t else 'Seq::<char>::empty()'
                    shapes.append('tok_shape(%s@, %s, %s, %d)' % (pn, sq(pre), sq(suf), mn))
            action = a['action'].replace('<>', ', '.join(names))
            ret = types[a['nt']]
            log = []
            action = apply_rewrites('{ ' + action + ' }', rel, a['line'], log)
            action = annotate_closures(action, {}, rel, a['line'], log)
            self.rewrites.extend(log)
            rty = ('core::result::Result<%s, RevalParseError>' % ret) if a['fallible'] else ret
            fname = 'action_%s_%d' % (a['nt'], a['k'])
            if self.demote.get(key):
                # a grammar action the front end cannot handle is demoted like any other function: signature only, C06 undecided for it
                self.demoted.append({'key': key, 'mode': 'bare', 'tags': [tag], 'name': fname, 'clauses': [key + '.safety']})
                self.emit('#[verifier::external_body]\npub fn %s(%s) -> %s { unimplemented!() }\n' % (fname, ', '.join(params), rty))
                n += 1
                continue
            first = self.emit('pub fn %s(%s) -> %s' % (fname, ', '.join(params), rty))
            if shapes:
                self.emit('    requires\n' + ''.join('        %s,\n' % sh for sh in shapes).rstrip('\n'))
                self.rewrites.append({'rule': 'T1', 'where': '%s:%d' % (rel, a['line']), 'text': 'token shape from the terminal regex: ' + '; '.join(shapes)})
            self.emit(action + '\n')
            last = len(self.lines)
            self.linemap.append((first, last, {'kind': 'fnbody', 'fn': key, 'clause': key + '.safety', 'tags': [tag], 'src': '%s:%d' % (rel, a['line'])}))
            self.functions.append({'key': key, 'name': fname, 'ctx': '', 'src': '%s:%d' % (rel, a['line']), 'clauses': [], 'safety_tags': [tag]})
            self.hashes.append({'item': key, 'file': rel, 'line': a['line'], 'src_sha256': hashlib.sha256(a['action'].encode()).hexdigest()})
            n += 1
        if n == 0:
            raise ExtractError('lost anchor: no grammar actions found in %s' % rel)

    def run_template(self, path):
        with open(path) as f:
            tl = f.read().split('\n')
        impl_stack = []
        skipping_default = False
        for raw in tl:
            m = re.match(r'\s*//@(\w+)\s*(.*)$', raw)
            if skipping_default:
                if m and m.group(1) == 'end_default':
                    skipping_default = False
                continue
            if m and m.group(1) == 'end_default':
                continue
            if m and m.group(1) == 'default_if_absent':
                # //@default_if_absent <key>: the lines up to //@end_default transcribe a PROVIDED trait method the crate does not override.
                # If the crate now defines it, the real function is extracted instead (same contract key) and the model is skipped.
                dkey = m.group(2).strip()
                dc = self.contracts.get(dkey)
                if dc is None:
                    raise ExtractError('no contract for %s' % dkey)
                try:
                    find_fn(dc.src, dc.ctx, dc.name)
                    exists = True
                except ExtractError:
                    exists = False
                if exists:
                    skipping_default = True
                    mode = self.demote.get(dkey)
                    if mode:
                        self.demoted.append({'key': dkey, 'mode': mode, 'tags': sorted(set(dc.safety_tags)), 'name': dc.name, 'clauses': [dkey + '.safety']})
                        self.emit_fn(dkey, True, bare=(mode == 'bare'))
                    else:
                        try:
                            self.emit_fn(dkey, False)
                        except ExtractError as e:
                            e.fn_key = dkey
                            raise
                continue
            if not m:
                ln = self.emit(raw)
                pl = getattr(self, 'pending_lemma', None)
                if pl is not None:
                    mm = re.match(r'\s*(?:pub\s+)?(?:broadcast\s+)?(?:proof\s+)?fn\s+(\w+)', raw)
                    if mm:
                        self.open_lemma = (pl[0], pl[1], mm.group(1), ln)
                        self.pending_lemma = None
                ol = getattr(self, 'open_lemma', None)
                if ol is not None and raw.startswith('}'):
                    self.linemap.append((ol[3], ln, {'kind': 'clause', 'fn': 'lemma ' + ol[2], 'clause': ol[0], 'tags': ol[1], 'ckind': 'lemma'}))
                    self.functions.append({'key': 'lemma ' + ol[2], 'name': ol[2], 'ctx': '', 'src': os.path.relpath(path, VERIF),
                                           'clauses': [{'id': ol[0], 'tags': ol[1], 'kind': 'lemma'}], 'safety_tags': []})
                    self.open_lemma = None
                continue
            d, rest = m.group(1), m.group(2).strip()
            if d == 'lemma':
                # //@lemma <id> [tags...]   marks the proof fn that follows as one tagged obligation
                parts = rest.split()
                self.pending_lemma = (parts[0], parts[1:])
                continue
            if d == 'actions':
                self.emit_actions(rest)
                continue
            if d == 'include':
                self.run_template(os.path.join(VERIF, 'contracts', rest))
            elif d == 'type':
                ps = rest.split()
                rel, kind, name = ps[0], ps[1], ps[2]
                self.emit_type(rel, kind, name, ps[4] if len(ps) >= 5 and ps[3] == 'as' else None)
            elif d == 'fn':
                mode = self.demote.get(rest)
                if mode:
                    c = self.contracts.get(rest)
                    tags = sorted(set(t for x in (c.clauses if c else []) for t in x.tags) | set(c.safety_tags if c else []) |
                                  set(t for cls in (c.loops.values() if c else []) for x in cls for t in x.tags))
                    self.demoted.append({'key': rest, 'mode': mode, 'tags': tags, 'name': c.name if c else rest,
                                         'clauses': [x.cid for x in (c.clauses if c else [])] + [rest + '.safety']})
                    try:
                        self.emit_fn(rest, True, bare=(mode == 'bare'))
                    except ExtractError as e:
                        e.fn_key = rest
                        raise
                else:
                    try:
                        self.emit_fn(rest, False)
                    except ExtractError as e:
                        e.fn_key = rest
                        raise
            elif d == 'import':
                self.emit_fn(rest, True)
            elif d == 'impl_open':
                # //@impl_open <file> <ctx>: the methods of one trait impl must sit in one impl block: emit the real header and the
                # associated type items once; the //@fn directives up to //@impl_close emit the methods without a wrapper
                rel, want = rest.split(None, 1)
                src_all, toks_all, items_all = load_src(rel)
                cands = [x for x in items_all if x.kind == 'impl' and ctx_match(want, x.name)]
                if len(cands) != 1:
                    raise ExtractError('lost anchor: %d impl blocks match %r in %s (need exactly 1)' % (len(cands), want, rel))
                blk = cands[0]
                self.group_ctx = blk.name
                self.emit(blk.name + ' {')
                for other in items_all:
                    if other.kind == 'type' and other.ctx == blk.name and blk.start <= other.start and other.end <= blk.end:
                        self.emit('    ' + strip_docs_and_attrs(src_all[other.start:other.end]).strip())
            elif d == 'impl_close':
                self.group_ctx = None
                self.emit('}\n')
            elif d == 'alias':
                # //@alias <file> <Name>: the crate declares `type <Name> = <T>;` in <file>; a signature that spells out <T> is
                # rewritten to say <Name> (R19; an identity under the real alias -- needed because <Name> is a stand-in type here)
                rel, name = rest.split()
                src = load_src(rel)[0]
                mm = re.search(r'\btype\s+%s\s*=\s*([^;]+);' % re.escape(name), src)
                if not mm:
                    raise ExtractError('lost anchor: type alias %s not found in %s' % (name, rel))
                if not hasattr(self, 'aliases'):
                    self.aliases = []
                self.aliases.append((name, re.sub(r'\s+', '', mm.group(1)), rel))
            else:
                raise ExtractError('unknown directive //@%s' % d)

    def add_canary_all(self):
        """A second canary with EVERY broadcast axiom / lemma of the assembled file switched on (the hand-written one only has the
        module-level list): `ensures false` must still be unprovable.  Inserted before `fn main`."""
        text = '\n'.join(self.lines)
        names = []
        for m in re.finditer(r'\bbroadcast\s+proof\s+fn\s+([A-Za-z_][A-Za-z0-9_]*)', text):
            if m.group(1) not in names:
                names.append(m.group(1))
        for m in re.finditer(r'\bbroadcast\s+group\s+([A-Za-z_][A-Za-z0-9_]*)', text):
            if m.group(1) not in names:
                names.append(m.group(1))
        if not names:
            return
        idx = next((i for i in range(len(self.lines) - 1, -1, -1) if self.lines[i].startswith('fn main')), len(self.lines))
        block = ['verus! {', 'pub mod canary_all_mod {', 'use super::*;',
                 '/// MUST FAIL with every broadcast axiom and lemma of this file in scope (generated)',
                 'pub proof fn canary_all()',
                 '    ensures false,  //@canary',
                 '{',
                 '    broadcast use {%s};' % ', '.join(names),
                 '}', '}', '} // verus!']
        self.lines[idx:idx] = block

    def result(self):
        return '\n'.join(self.lines) + '\n'

    def canary_lines(self):
        return [i + 1 for i, l in enumerate(self.lines) if '//@canary' in l]


def assemble(unit, outdir, demote=None):
    a = Assembler(unit, demote)
    a.run_template(os.path.join(VERIF, 'contracts', unit + '.unit.rs'))
    a.add_canary_all()
    os.makedirs(outdir, exist_ok=True)
    rs = os.path.join(outdir, unit + '.rs')
    with open(rs, 'w') as f:
        f.write(a.result())
    meta = {'unit': unit, 'file': rs, 'demoted': a.demoted, 'canary_lines': a.canary_lines(), 'linemap': a.linemap, 'functions': a.functions, 'rewrites': a.rewrites,
            'hashes': a.hashes, 'dropped': a.dropped}
    with open(os.path.join(outdir, unit + '.meta.json'), 'w') as f:
        json.dump(meta, f, indent=1)
    return rs, meta


if __name__ == '__main__':
    try:
        rs, meta = assemble(sys.argv[1], sys.argv[2] if len(sys.argv) > 2 else os.path.join(VERIF, 'build'))
        print(rs, len(meta['functions']), 'functions')
    except ExtractError as e:
        print('EXTRACT-ERROR:', e)
        sys.exit(2)
