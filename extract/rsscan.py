"""Minimal Rust lexical scanner used by the extractor.

It does not parse Rust; it only needs to (a) skip comments, string/char literals and lifetimes
correctly, (b) match brackets, (c) find items by name.  Everything it copies is copied verbatim
from the source text (by byte offsets), so the verified text is the text of /repo.
"""
import re


class ScanError(Exception):
    pass


def tokenize(src):
    """Return list of (kind, text, start, end).  kinds: ws, comment, str, char, life, ident, num, punct"""
    toks = []
    i = 0
    n = len(src)
    ident_re = re.compile(r'[A-Za-z_][A-Za-z0-9_]*')
    num_re = re.compile(r'[0-9][0-9A-Za-z_]*(\.[0-9][0-9A-Za-z_]*)?')
    while i < n:
        c = src[i]
        if c.isspace():
            j = i
            while j < n and src[j].isspace():
                j += 1
            toks.append(('ws', src[i:j], i, j))
            i = j
        elif src.startswith('//', i):
            j = src.find('\n', i)
            if j < 0:
                j = n
            toks.append(('comment', src[i:j], i, j))
            i = j
        elif src.startswith('/*', i):
            depth = 1
            j = i + 2
            while j < n and depth:
                if src.startswith('/*', j):
                    depth += 1
                    j += 2
                elif src.startswith('*/', j):
                    depth -= 1
                    j += 2
                else:
                    j += 1
            toks.append(('comment', src[i:j], i, j))
            i = j
        elif c == '"' or (c == 'b' and src.startswith('b"', i)):
            j = i + (2 if c == 'b' else 1)
            while j < n and src[j] != '"':
                if src[j] == '\\':
                    j += 1
                j += 1
            j += 1
            toks.append(('str', src[i:j], i, j))
            i = j
        elif c == 'r' and re.match(r'r#*"', src[i:i + 12]):
            m = re.match(r'r(#*)"', src[i:i + 12])
            closer = '"' + m.group(1)
            j = src.find(closer, i + len(m.group(0)))
            if j < 0:
                raise ScanError('unterminated raw string')
            j += len(closer)
            toks.append(('str', src[i:j], i, j))
            i = j
        elif c == "'":
            # char literal or lifetime
            m = re.match(r"'(\\.[^']*|[^'\\])'", src[i:i + 14])
            if m:
                j = i + len(m.group(0))
                toks.append(('char', src[i:j], i, j))
                i = j
            else:
                m = re.match(r"'[A-Za-z_][A-Za-z0-9_]*", src[i:])
                if not m:
                    raise ScanError('bad quote at %d' % i)
                j = i + len(m.group(0))
                toks.append(('life', src[i:j], i, j))
                i = j
        elif ident_re.match(src, i):
            m = ident_re.match(src, i)
            toks.append(('ident', m.group(0), i, m.end()))
            i = m.end()
        elif c.isdigit():
            m = num_re.match(src, i)
            toks.append(('num', m.group(0), i, m.end()))
            i = m.end()
        else:
            # multi-char punctuation that matters to us
            for p in ('=>', '->', '::', '==', '!=', '<=', '>=', '&&', '||', '..=', '..'):
                if src.startswith(p, i):
                    toks.append(('punct', p, i, i + len(p)))
                    i += len(p)
                    break
            else:
                toks.append(('punct', c, i, i + 1))
                i += 1
    return toks


OPEN = {'(': ')', '[': ']', '{': '}'}
CLOSE = {')', ']', '}'}


def sig(toks):
    """indices of significant tokens (not ws/comment)"""
    return [k for k, t in enumerate(toks) if t[0] not in ('ws', 'comment')]


def match_close(toks, k):
    """toks[k] is an opening bracket; return index of its matching closer"""
    stack = []
    for j in range(k, len(toks)):
        t = toks[j]
        if t[0] != 'punct':
            continue
        if t[1] in OPEN:
            stack.append(OPEN[t[1]])
        elif t[1] in CLOSE:
            if not stack or stack[-1] != t[1]:
                raise ScanError('bracket mismatch at byte %d' % t[2])
            stack.pop()
            if not stack:
                return j
    raise ScanError('unclosed bracket at byte %d' % toks[k][2])


def line_of(src, pos):
    return src.count('\n', 0, pos) + 1


class Item:
    def __init__(self, **kw):
        self.__dict__.update(kw)


def _angle_skip(toks, s, p):
    """s = list of significant indices, p = position in s at a '<' ; return position after matching '>'"""
    depth = 0
    while p < len(s):
        t = toks[s[p]]
        if t[0] == 'punct':
            if t[1] == '<':
                depth += 1
            elif t[1] == '>':
                depth -= 1
                if depth == 0:
                    return p + 1
            elif t[1] == '->':
                pass
            elif t[1] in OPEN:
                # skip bracket group
                j = match_close(toks, s[p])
                while s[p] < j:
                    p += 1
                continue
        p += 1
    raise ScanError('unclosed <')


def find_items(src, toks=None):
    """Scan top-level and impl/mod-nested items.  Returns list of Item(kind, name, ctx, start, end,
    head_end (byte offset of the body's opening brace, or None), ...).  ctx is the header text of
    the enclosing impl (normalised whitespace) or '' for free items; cfg(test) modules are skipped."""
    if toks is None:
        toks = tokenize(src)
    items = []

    def scan(lo, hi, ctx):
        s = [k for k in range(lo, hi) if toks[k][0] not in ('ws', 'comment')]
        p = 0
        pending_attr_start = None
        attrs = []
        while p < len(s):
            k = s[p]
            t = toks[k]
            if t[0] == 'punct' and t[1] == '#':
                # attribute: # [ ... ]  or #![...]
                q = p + 1
                if toks[s[q]][1] == '!':
                    q += 1
                if toks[s[q]][1] != '[':
                    raise ScanError('attr')
                j = match_close(toks, s[q])
                if pending_attr_start is None:
                    pending_attr_start = t[2]
                attrs.append(src[t[2]:toks[j][3]])
                while p < len(s) and s[p] <= j:
                    p += 1
                continue
            if t[0] == 'ident' and t[1] in ('pub', 'async', 'unsafe', 'const', 'extern', 'default') and not (
                    t[1] == 'const' and toks[s[p + 1]][0] == 'ident' and toks[s[p + 1]][1] not in ('fn', 'async', 'unsafe')):
                if pending_attr_start is None:
                    pending_attr_start = t[2]
                p += 1
                # pub(crate) / pub(super)
                if t[1] == 'pub' and p < len(s) and toks[s[p]][1] == '(':
                    j = match_close(toks, s[p])
                    while p < len(s) and s[p] <= j:
                        p += 1
                continue
            start = pending_attr_start if pending_attr_start is not None else t[2]
            my_attrs = attrs
            pending_attr_start = None
            attrs = []
            if t[0] == 'ident' and t[1] == 'fn':
                name = toks[s[p + 1]][1]
                # find body '{' or ';' at depth 0 (skipping generics / params / where)
                q = p + 2
                body_open = None
                while q < len(s):
                    tt = toks[s[q]]
                    if tt[0] == 'punct' and tt[1] in ('(', '['):
                        j = match_close(toks, s[q])
                        while s[q] < j:
                            q += 1
                    elif tt[0] == 'punct' and tt[1] == '{':
                        body_open = s[q]
                        break
                    elif tt[0] == 'punct' and tt[1] == ';':
                        break
                    q += 1
                if body_open is None:
                    end_k = s[q]
                    items.append(Item(kind='fn', name=name, ctx=ctx, start=start, end=toks[end_k][3],
                                      fn_kw=t[2], body_open=None, body_close=None, attrs=my_attrs))
                    p = q + 1
                else:
                    j = match_close(toks, body_open)
                    items.append(Item(kind='fn', name=name, ctx=ctx, start=start, end=toks[j][3],
                                      fn_kw=t[2], body_open=toks[body_open][2], body_close=toks[j][2],
                                      attrs=my_attrs))
                    while p < len(s) and s[p] <= j:
                        p += 1
                continue
            if t[0] == 'ident' and t[1] in ('impl', 'mod', 'trait'):
                # header up to '{' or ';'
                q = p + 1
                while q < len(s) and not (toks[s[q]][0] == 'punct' and toks[s[q]][1] in ('{', ';')):
                    if toks[s[q]][1] in ('(', '['):
                        j = match_close(toks, s[q])
                        while s[q] < j:
                            q += 1
                    q += 1
                if toks[s[q]][1] == ';':
                    p = q + 1
                    continue
                header = ' '.join(src[t[2]:toks[s[q]][2]].split())
                j = match_close(toks, s[q])
                is_test = any('cfg(test)' in a.replace(' ', '') for a in my_attrs)
                if t[1] == 'mod':
                    if not is_test:
                        scan(s[q] + 1, j, ctx)
                else:
                    items.append(Item(kind=t[1], name=header, ctx=ctx, start=start, end=toks[j][3],
                                      body_open=toks[s[q]][2], body_close=toks[j][2], attrs=my_attrs))
                    scan(s[q] + 1, j, header)
                while p < len(s) and s[p] <= j:
                    p += 1
                continue
            if t[0] == 'ident' and t[1] in ('struct', 'enum', 'type', 'static', 'const', 'use', 'union'):
                name = toks[s[p + 1]][1] if t[1] != 'use' else ''
                q = p + 1
                end_k = None
                while q < len(s):
                    tt = toks[s[q]]
                    if tt[0] == 'punct' and tt[1] in ('(', '[', '{'):
                        j = match_close(toks, s[q])
                        brace = tt[1] == '{'
                        while s[q] < j:
                            q += 1
                        if brace and t[1] in ('struct', 'enum', 'union'):
                            end_k = j
                            break
                    elif tt[0] == 'punct' and tt[1] == ';':
                        end_k = s[q]
                        break
                    q += 1
                items.append(Item(kind=t[1], name=name, ctx=ctx, start=start, end=toks[end_k][3], attrs=my_attrs))
                while p < len(s) and s[p] <= end_k:
                    p += 1
                continue
            if t[0] == 'ident' and p + 1 < len(s) and toks[s[p + 1]][1] == '!':
                # macro invocation item: name!( ... ); or name!{ ... }
                q = p + 2
                while toks[s[q]][0] == 'ident':
                    q += 1
                j = match_close(toks, s[q])
                items.append(Item(kind='macro', name=t[1], ctx=ctx, start=start, end=toks[j][3], attrs=my_attrs))
                while p < len(s) and s[p] <= j:
                    p += 1
                if p < len(s) and toks[s[p]][1] == ';':
                    p += 1
                continue
            # anything else: skip token
            p += 1

    scan(0, len(toks), '')
    return items
